#!/bin/bash
# mutant_test.sh <patch.diff> <property> [tier]  — apply a seeded change to /repo, run one check, undo.
# Used only for the sensitivity proof (DESIGN.md 2.8); never leaves /repo modified.
set -u
PATCH="$1"; ID="$2"; TIER="${3:-quick}"
cd /repo || exit 2
if ! git diff --quiet; then echo "/repo has uncommitted changes" >&2; exit 2; fi
if ! git apply --check "$PATCH" 2>/dev/null; then
  # conflicts with a later fix: commit: the seeded change has to be re-made by hand (see seeded/<id>/meta.json)
  echo "PATCH-DOES-NOT-APPLY $PATCH" >&2; exit 3
else
  git apply "$PATCH"
fi
MR="${VERIF_ROOT:-/tmp/mutant_root}"; mkdir -p "$MR"; cp /verif/KNOWN_FINDINGS.txt "$MR/"
cd /verif && VERIF_ROOT="$MR" ./check.sh "$ID" "$TIER" 2>&1 | grep -E "VIOLATION|violation class|HARNESS|KNOWN|batch" | cut -c1-400
RC=${PIPESTATUS[0]}
cd /repo && git reset -q --hard HEAD
echo "exit=$RC"
