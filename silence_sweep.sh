#!/bin/bash
# silence_sweep.sh [nseeds] [scale] [tier] — the unchanged tree must stay silent for many different VERIF_SEEDs.
# Runs in an isolated copy (scratch worktree of /repo HEAD + copy of /verif/sim pointing at it) so that
# it can run in the background while /repo and /verif are being worked on. Writes /verif/SILENCE.md.
set -u
N="${1:-50}"; SCALE="${2:-0.15}"; TIER="${3:-quick}"; DEST="${4:-/verif/SILENCE.md}"; OFFSET="${5:-0}"
SX=$(mktemp -d /tmp/sx.XXXXXX)
git -C /repo worktree add -q --detach $SX/repo HEAD
rsync -a --exclude target /verif/sim/ $SX/sim/
sed -i "s#/repo/src/lib.rs#$SX/repo/src/lib.rs#" $SX/sim/shadow/*/Cargo.toml
mkdir -p $SX/root; cp /verif/KNOWN_FINDINGS.txt $SX/root/
(cd $SX/sim && CARGO_NET_OFFLINE=true cargo build --release --offline --bin verif-sim >/dev/null 2>&1) || { echo "build failed"; exit 2; }
OUT=$SX/SILENCE.md
{
echo "# Silence sweep"
echo
echo "/repo at $(git -C /repo log --format=%h -1), /verif at $(git -C /verif log --format=%h -1); tier $TIER at scale $SCALE of the registered number of runs; $N different VERIF_SEED values per property."
echo "A line lists: property, seeds run, exit codes seen, total simulated runs, VIOLATION lines, KNOWN-FINDING lines, harness errors."
echo
} > $OUT
for p in C01 C02 C03 C04 C05 C07 C08 C11 C19; do
  codes=""; runs=0; viol=0; known=0; herr=0
  for s in $(seq 1 $N); do
    seed=$((1000003 * (s + OFFSET) + 17))
    (cd $SX/sim && VERIF_SEED=$seed VERIF_ROOT=$SX/root VERIF_REPO=$SX/repo VERIF_RUNS_SCALE=$SCALE ./target/release/verif-sim check $p $TIER > $SX/out.txt 2>&1); rc=$?
    codes="$codes $rc"
    r=$(grep -a "^batch" $SX/out.txt | sed -E 's/^batch [^:]+: ([0-9]+) runs.*/\1/' | paste -sd+ | bc); runs=$((runs + ${r:-0}))
    viol=$((viol + $(grep -ac "^VIOLATION" $SX/out.txt))); known=$((known + $(grep -ac "^KNOWN-FINDING" $SX/out.txt))); herr=$((herr + $(grep -ac "HARNESS-ERROR" $SX/out.txt)))
    if [ $rc -ne 0 ]; then cp $SX/out.txt /verif/silence-fail-$p-$seed.txt; fi
  done
  echo "- $p: $N seeds, exit codes {$(echo $codes | tr ' ' '\n' | sort -u | paste -sd,)}, $runs simulated runs, $viol VIOLATION, $known KNOWN-FINDING, $herr harness errors" >> $OUT
done
cp $OUT $DEST
git -C /repo worktree remove --force $SX/repo; rm -rf $SX
