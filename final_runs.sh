#!/bin/bash
# final_runs.sh <tier> — run every registered check through ./check.sh (real /repo, evidence rewritten) one after the other.
TIER="${1:-thorough}"
cd /verif
for p in C01 C02 C03 C04 C05 C07 C08 C11 C19; do
  /usr/bin/time -f "$p $TIER wall %es" ./check.sh $p $TIER > /tmp/final-$p-$TIER.log 2>&1; echo "$p exit=$?" >> /tmp/final-summary-$TIER.txt
  tail -1 /tmp/final-$p-$TIER.log >> /tmp/final-summary-$TIER.txt
done
echo DONE >> /tmp/final-summary-$TIER.txt
