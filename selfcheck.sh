#!/bin/bash
# selfcheck.sh [runs-per-batch] — determinism proof for the simulator (DESIGN.md 2.8):
# every batch of every property is executed for the same seeds (a) twice in separate processes,
# (b) split over 1, 3 and 16 processes, (c) under two VERIF_SEED values; the per-run event-log hashes
# must be identical between (a)/(b) and differ between the two seeds. Exit 0 = deterministic, 2 = not.
set -u
N="${1:-2000}"
cd "$(dirname "$0")/sim" || exit 2
CARGO_NET_OFFLINE=true cargo build --release --offline --bin verif-sim >/dev/null 2>&1 || { echo "build failed"; exit 2; }
B=./target/release/verif-sim
T=$(mktemp -d)
rc=0
$B list | while read id level batches; do
  for b in $(echo "${batches#batches=}" | tr ',' ' '); do
    [ "$b" = "fidelity" ] && continue   # real thread pools: by design not part of the deterministic simulator
    n=$N; case "$id-$b" in C19-sweep|C04-faulted|C08-schedules) n=$((N/5));; esac
    $B hashes $id $b quick 7 0 $n > $T/a.txt &
    $B hashes $id $b quick 7 0 $n > $T/b.txt &
    ( $B hashes $id $b quick 7 0 $((n/3)) ; $B hashes $id $b quick 7 $((n/3)) $((2*n/3)) ; $B hashes $id $b quick 7 $((2*n/3)) $n ) > $T/c.txt &
    for k in $(seq 0 15); do $B hashes $id $b quick 7 $((k*n/16)) $(((k+1)*n/16)) > $T/d$k.txt & done
    $B hashes $id $b quick 8 0 $((n/10)) > $T/e.txt &
    wait
    cat $(for k in $(seq 0 15); do echo $T/d$k.txt; done) > $T/d.txt
    if cmp -s $T/a.txt $T/b.txt && cmp -s $T/a.txt $T/c.txt && cmp -s $T/a.txt $T/d.txt; then
      same=$(head -$((n/10)) $T/a.txt | cut -d' ' -f2 | paste -sd, | md5sum); other=$(cut -d' ' -f2 $T/e.txt | paste -sd, | md5sum)
      if [ "$same" = "$other" ]; then echo "NOT SEED-SENSITIVE $id/$b"; echo 2 > $T/rc; else echo "deterministic: $id/$b ($n runs x 4 executions, $(grep -vc ' -$' $T/a.txt) runs with violations)"; fi
    else
      echo "NONDETERMINISTIC $id/$b"; diff $T/a.txt $T/c.txt | head -5; echo 2 > $T/rc
    fi
  done
done
[ -f $T/rc ] && rc=2
rm -rf $T
exit $rc
