#!/bin/bash
# check.sh <property-id> <quick|thorough>
# Rebuilds the simulator (and, through the shadow manifests, lopdf from /repo's
# current working tree), then runs the check. Exit 0 = held, 1 = VIOLATION, 2 = harness error.
set -u
ID="${1:?property id}"; TIER="${2:-${VERIF_TIER:-quick}}"
cd "$(dirname "$0")/sim" || exit 2
export CARGO_NET_OFFLINE=true
if ! cargo build --release --offline >target-build.log 2>&1; then
  tail -40 target-build.log >&2
  echo "HARNESS-ERROR build failed (see /verif/sim/target-build.log)" >&2
  exit 2
fi
exec ./target/release/verif-sim check "$ID" "$TIER"
