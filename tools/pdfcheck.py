#!/usr/bin/env python3
"""Independent strict PDF reader used to validate the reference writer's output.
Usage: pdfcheck.py DIR   (checks every fN_sM.pdf against fN_sM.json)"""
import sys, os, json, zlib, struct, re
from fractions import Fraction

WS = b"\x00\t\n\x0c\r "
DELIM = b"()<>[]{}/%"

class Err(Exception):
    pass

class Ref:
    def __init__(s, n, g): s.n, s.g = n, g
class Name:
    def __init__(s, b): s.b = b
class Real:
    def __init__(s, txt): s.txt = txt
class HexStr:
    def __init__(s, b): s.b = b
class LitStr:
    def __init__(s, b): s.b = b
class StreamObj:
    def __init__(s, d, body): s.d, s.body = d, body
class Kw:
    def __init__(s, b): s.b = b

def f32_bits(txt):
    """exact decimal -> nearest f32 (ties to even)"""
    t = txt.decode()
    sign = -1 if t.startswith('-') else 1
    t = t.lstrip('+-')
    ip, _, fp = t.partition('.')
    fr = sign * Fraction(int(ip or '0') * 10 ** len(fp) + int(fp or '0'), 10 ** len(fp))
    d = float(fr)
    try:
        c0 = struct.unpack('<f', struct.pack('<f', d))[0]
    except OverflowError:
        raise Err("real overflow")
    b0 = struct.unpack('<I', struct.pack('<f', c0))[0]
    best = None
    for db in (-1, 0, 1):
        b = b0 + db
        if b < 0: continue
        if (b & 0x7fffffff) > 0x7f7fffff: continue
        if (b0 & 0x80000000) != (b & 0x80000000): continue
        c = struct.unpack('<f', struct.pack('<I', b))[0]
        dist = abs(Fraction(c) - fr)
        key = (dist, b & 1)
        if best is None or key < best[0]:
            best = (key, b)
    bits = best[1]
    neg = txt.startswith(b'-')
    if (bits & 0x7fffffff) == 0:
        bits = 0x80000000 if neg else 0
    return bits

class P:
    def __init__(s, data, pos=0, end=None):
        s.d, s.p, s.end = data, pos, len(data) if end is None else end
    def peek(s, n=1): return s.d[s.p:min(s.p + n, s.end)]
    def skip(s):
        while s.p < s.end:
            c = s.d[s.p]
            if c in WS: s.p += 1
            elif c == 0x25:
                while s.p < s.end and s.d[s.p] not in b"\r\n": s.p += 1
            else: break
    def regular(s):
        st = s.p
        while s.p < s.end and s.d[s.p] not in WS and s.d[s.p] not in DELIM: s.p += 1
        return s.d[st:s.p]
    def obj(s, depth=0):
        s.skip()
        if s.p >= s.end: raise Err("eof in object")
        c = s.d[s.p]
        if c == 0x2f:  # name
            s.p += 1
            raw = s.regular(); out = bytearray(); i = 0
            while i < len(raw):
                if raw[i] == 0x23:
                    h = raw[i+1:i+3]
                    if len(h) != 2 or not re.fullmatch(rb'[0-9A-Fa-f]{2}', h): raise Err("bad # escape in name")
                    out.append(int(h, 16)); i += 3
                else:
                    if not (33 <= raw[i] <= 126): raise Err("unescaped byte %d in name" % raw[i])
                    out.append(raw[i]); i += 1
            return Name(bytes(out))
        if c == 0x28: return s.litstr()
        if c == 0x3c:
            if s.peek(2) == b"<<":
                s.p += 2; d = []
                while True:
                    s.skip()
                    if s.peek(2) == b">>": s.p += 2; return d
                    k = s.obj(depth + 1)
                    if not isinstance(k, Name): raise Err("dict key is not a name at %d" % s.p)
                    v = s.obj(depth + 1)
                    if isinstance(v, Kw): raise Err("keyword %r as dict value" % v.b)
                    if any(kk == k.b for kk, _ in d): raise Err("duplicate key")
                    d.append((k.b, v))
            s.p += 1; digs = bytearray()
            while True:
                if s.p >= s.end: raise Err("eof in hex string")
                c = s.d[s.p]; s.p += 1
                if c == 0x3e: break
                if c in WS: continue
                if c not in b"0123456789abcdefABCDEF": raise Err("bad hex digit %d" % c)
                digs.append(c)
            if len(digs) % 2: digs.append(0x30)
            return HexStr(bytes.fromhex(digs.decode()))
        if c == 0x5b:
            s.p += 1; a = []
            while True:
                s.skip()
                if s.peek(1) == b"]": s.p += 1; return a
                v = s.obj(depth + 1)
                if isinstance(v, Kw): raise Err("keyword %r in array" % v.b)
                a.append(v)
        if c in DELIM: raise Err("unexpected delimiter %r at %d" % (chr(c), s.p))
        st = s.p
        t = s.regular()
        if re.fullmatch(rb'[+-]?\d+', t):
            # maybe a reference
            save = s.p
            if re.fullmatch(rb'\d+', t):
                s.skip(); t2 = s.regular()
                if re.fullmatch(rb'\d+', t2):
                    s.skip(); t3 = s.regular()
                    if t3 == b"R": return Ref(int(t), int(t2))
            s.p = save
            v = int(t)
            if not (-2**63 <= v < 2**63): raise Err("integer out of range")
            return v
        if re.fullmatch(rb'[+-]?(\d+\.\d*|\.\d+)', t): return Real(t)
        if t == b"null": return None
        if t == b"true": return True
        if t == b"false": return False
        return Kw(t)
    def litstr(s):
        assert s.d[s.p] == 0x28
        s.p += 1; out = bytearray(); depth = 1
        while True:
            if s.p >= s.end: raise Err("eof in string")
            c = s.d[s.p]; s.p += 1
            if c == 0x5c:
                e = s.d[s.p]; s.p += 1
                if e in b"01234567":
                    v = e - 48
                    for _ in range(2):
                        if s.p < s.end and s.d[s.p] in b"01234567": v = v * 8 + s.d[s.p] - 48; s.p += 1
                        else: break
                    out.append(v & 255)
                elif e == 0x0d:
                    if s.p < s.end and s.d[s.p] == 0x0a: s.p += 1
                elif e == 0x0a: pass
                else:
                    m = {0x6e: 10, 0x72: 13, 0x74: 9, 0x62: 8, 0x66: 12, 0x28: 0x28, 0x29: 0x29, 0x5c: 0x5c}
                    out.append(m.get(e, e))
            elif c == 0x28: depth += 1; out.append(c)
            elif c == 0x29:
                depth -= 1
                if depth == 0: return LitStr(bytes(out))
                out.append(c)
            elif c == 0x0d:
                if s.p < s.end and s.d[s.p] == 0x0a: s.p += 1
                out.append(10)
            else: out.append(c)

def png_unpredict(data, cols, bpp=1):
    out = bytearray(); prev = bytearray(cols)
    if len(data) % (cols + 1): raise Err("predictor data not whole rows")
    for r in range(0, len(data), cols + 1):
        ft = data[r]; row = bytearray(data[r+1:r+1+cols])
        for i in range(cols):
            a = row[i-bpp] if i >= bpp else 0
            b = prev[i]; c = prev[i-bpp] if i >= bpp else 0
            if ft == 0: pr = 0
            elif ft == 1: pr = a
            elif ft == 2: pr = b
            elif ft == 3: pr = (a + b) // 2
            elif ft == 4:
                p = a + b - c; pa, pb, pc = abs(p-a), abs(p-b), abs(p-c)
                pr = a if (pa <= pb and pa <= pc) else (b if pb <= pc else c)
            else: raise Err("bad png filter type")
            row[i] = (row[i] + pr) & 255
        out += row; prev = row
    return bytes(out)

def dget(d, k):
    for kk, v in d:
        if kk == k: return v
    return None

class Reader:
    def __init__(s, data, allow_junk):
        s.base = 0
        if not data.startswith(b"%PDF-"):
            if not allow_junk: raise Err("header not at offset 0")
            s.base = data.find(b"%PDF-")
            if s.base < 0 or s.base > 400: raise Err("no header")
        s.d = data[s.base:]
        m = re.match(rb'%PDF-([^\r\n]*)(\r\n|\r|\n)', s.d)
        if not m: raise Err("bad header")
        s.version = m.group(1)
        # tail: startxref EOL digits EOL %%EOF ws*
        m = re.search(rb'(?:\r\n|\r|\n)startxref(?:\r\n|\r|\n)([1-9]\d*|0)(?:\r\n|\r|\n)%%EOF[\x00\t\n\x0c\r ]*\Z', s.d)
        if not m: raise Err("bad startxref/%%EOF tail")
        s.xref = {}  # num -> (1, off, gen) | (2, cont, idx) | (0,)
        s.cache = {}
        s.containers = {}
        off = int(m.group(1)); first = True; seen = set()
        s.is_stream = None
        while off is not None:
            if off in seen: raise Err("Prev loop")
            seen.add(off)
            tr, is_stream = s.read_xref(off)
            if first: s.trailer, s.is_stream, first = tr, is_stream, False
            prev = dget(tr, b"Prev")
            if prev is not None and not isinstance(prev, int): raise Err("Prev not int")
            off = prev
        size = dget(s.trailer, b"Size")
        if not isinstance(size, int) or size <= max(s.xref.keys()): raise Err("Size too small")
        s.size = size
    def read_xref(s, off):
        d = s.d
        if d[off:off+4] == b"xref":
            m = re.compile(rb'xref(\r\n|\r|\n)').match(d, off)
            if not m: raise Err("xref keyword line")
            p = m.end(); nsub = 0
            while True:
                m = re.compile(rb'(\d+) (\d+) ?(\r\n|\r|\n)').match(d, p)
                if not m: break
                nsub += 1; start, cnt = int(m.group(1)), int(m.group(2)); p = m.end()
                for i in range(cnt):
                    e = d[p:p+20]
                    m2 = re.fullmatch(rb'(\d{10}) (\d{5}) ([nf])( \r| \n|\r\n)', e)
                    if not m2: raise Err("bad xref entry %r" % e)
                    n = start + i
                    if n not in s.xref:
                        s.xref[n] = (1, int(m2.group(1)), int(m2.group(2))) if m2.group(3) == b"n" else (0,)
                    elif False: pass
                    if m2.group(3) == b"f" and (n != 0 or int(m2.group(2)) != 65535): raise Err("unexpected free entry")
                    p += 20
            if nsub == 0: raise Err("no subsection")
            q = P(d, p); q.skip()
            if q.regular() != b"trailer": raise Err("trailer keyword expected at %d" % q.p)
            tr = q.obj()
            if not isinstance(tr, list): raise Err("trailer dict")
            return tr, False
        num, gen, o, _ = s.indirect(off, resolve=False)
        if not isinstance(o, StreamObj) or not isinstance(dget(o.d, b"Type"), Name) or dget(o.d, b"Type").b != b"XRef":
            raise Err("xref stream expected at %d" % off)
        if not isinstance(dget(o.d, b"Length"), int): raise Err("xref stream Length must be direct")
        data = s.decode(o)
        w = dget(o.d, b"W"); size = dget(o.d, b"Size")
        if not (isinstance(w, list) and len(w) == 3 and all(isinstance(x, int) and x >= 0 for x in w)): raise Err("bad W")
        idx = dget(o.d, b"Index")
        if idx is None: idx = [0, size]
        if len(idx) % 2 or not all(isinstance(x, int) for x in idx): raise Err("bad Index")
        row = sum(w); total = sum(idx[1::2])
        if len(data) != row * total: raise Err("xref stream length %d != %d rows of %d" % (len(data), total, row))
        p = 0; own = False
        for k in range(0, len(idx), 2):
            for n in range(idx[k], idx[k] + idx[k+1]):
                f = []
                for wi in w:
                    f.append(int.from_bytes(data[p:p+wi], 'big')); p += wi
                t = f[0] if w[0] else 1
                if n >= size: raise Err("entry beyond Size")
                if t == 1 and n == num:
                    own = True
                    if f[1] != off: raise Err("own entry of the xref stream is wrong")
                if n not in s.xref:
                    s.xref[n] = (0,) if t == 0 else ((1, f[1], f[2]) if t == 1 else (2, f[1], f[2]))
                if t == 0 and (n != 0 or f[2] != 65535 or f[1] != 0): raise Err("unexpected free entry")
                if t > 2: raise Err("bad entry type")
        if not own: raise Err("xref stream lacks its own entry")
        return o.d, True
    def decode(s, o):
        data = o.body
        flt = dget(o.d, b"Filter")
        if flt is None:
            if dget(o.d, b"DecodeParms") is not None: raise Err("DecodeParms without Filter")
            return data
        if not (isinstance(flt, Name) and flt.b == b"FlateDecode"): raise Err("unknown filter")
        dec = zlib.decompressobj()
        data = dec.decompress(data)
        if not dec.eof or dec.unused_data: raise Err("zlib stream not exactly terminated")
        pr = dget(o.d, b"DecodeParms")
        if pr is not None:
            pred = dget(pr, b"Predictor"); cols = dget(pr, b"Columns") or 1
            if dget(pr, b"Colors") not in (None, 1) or dget(pr, b"BitsPerComponent") not in (None, 8): raise Err("parms")
            if pred is not None and pred != 1:
                if not (10 <= pred <= 15): raise Err("predictor")
                data = png_unpredict(data, cols)
        return data
    def indirect(s, off, resolve=True):
        d = s.d
        m = re.compile(rb'(\d+)[\x00\t\n\x0c\r ]+(\d+)[\x00\t\n\x0c\r ]+obj').match(d, off)
        if not m: raise Err("no object header at offset %d: %r" % (off, d[off:off+20]))
        q = P(d, m.end())
        o = q.obj()
        if isinstance(o, Kw): raise Err("keyword %r as object value at %d" % (o.b, off))
        q.skip()
        kw = q.regular()
        if kw == b"stream":
            if not isinstance(o, list): raise Err("stream without dict")
            if q.peek(2) == b"\r\n": q.p += 2
            elif q.peek(1) == b"\n": q.p += 1
            else: raise Err("stream keyword not followed by CRLF/LF at %d" % q.p)
            ln = dget(o, b"Length")
            if isinstance(ln, Ref):
                if not resolve: raise Err("indirect Length not allowed here")
                ln = s.get(ln.n, ln.g)
            if not isinstance(ln, int) or ln < 0: raise Err("bad Length")
            body = d[q.p:q.p+ln]
            if len(body) != ln: raise Err("stream beyond eof")
            q.p += ln
            for e in (b"\r\n", b"\n", b"\r"):
                if q.peek(len(e)) == e: q.p += len(e); break
            if q.peek(9) != b"endstream": raise Err("endstream expected at %d for object at %d" % (q.p, off))
            q.p += 9
            o = StreamObj(o, body)
            q.skip(); kw = q.regular()
        if kw != b"endobj": raise Err("endobj expected, got %r (object at %d)" % (kw, off))
        return int(m.group(1)), int(m.group(2)), o, q.p
    def get(s, n, g):
        e = s.xref.get(n)
        if e is None or e[0] == 0: return None
        if n in s.cache:
            gg, o = s.cache[n]
            return o if gg == g else None
        if e[0] == 1:
            num, gen, o, _ = s.indirect(e[1])
            if num != n or gen != e[2]: raise Err("object %d %d found where %d %d expected" % (num, gen, n, e[2]))
            s.cache[n] = (gen, o)
        else:
            c = s.container(e[1])
            if e[2] >= len(c) or c[e[2]][0] != n: raise Err("object %d not at index %d of container %d" % (n, e[2], e[1]))
            s.cache[n] = (0, c[e[2]][1])
        return s.get(n, g)
    def container(s, cn):
        if cn in s.containers: return s.containers[cn]
        e = s.xref.get(cn)
        if not e or e[0] != 1: raise Err("container %d is not a plain object" % cn)
        num, gen, o, _ = s.indirect(e[1])
        if num != cn or gen != 0: raise Err("container id mismatch")
        if not isinstance(o, StreamObj) or dget(o.d, b"Type").b != b"ObjStm": raise Err("not an ObjStm")
        data = s.decode(o)
        n, first = dget(o.d, b"N"), dget(o.d, b"First")
        q = P(data, 0, first); pairs = []
        for _ in range(n):
            a = q.obj(); b = q.obj()
            if not (isinstance(a, int) and isinstance(b, int)): raise Err("objstm index")
            pairs.append((a, b))
        q.skip()
        if q.p != first: raise Err("junk in objstm index block")
        res = []; lastoff = -1
        for k, (a, b) in enumerate(pairs):
            if b <= lastoff: raise Err("objstm offsets not increasing")
            lastoff = b
            if first + b >= len(data): raise Err("objstm offset out of range")
            if data[first+b] in WS: raise Err("objstm offset points at white-space")
            if k > 0 and data[first+b-1] not in WS: raise Err("objstm members not separated by white-space")
            q = P(data, first + b)
            v = q.obj()
            if isinstance(v, (Kw, StreamObj)): raise Err("bad objstm member")
            lim = first + pairs[k+1][1] if k + 1 < len(pairs) else len(data)
            q.skip()
            if q.p > lim or (q.p < lim): raise Err("objstm member %d does not end where the next begins (%d vs %d)" % (a, q.p, lim))
            res.append((a, v))
        s.containers[cn] = res
        return res
    def all_objects(s):
        out = {}
        for n, e in sorted(s.xref.items()):
            if e[0] == 0: continue
            g = e[2] if e[0] == 1 else 0
            out[(n, g)] = s.get(n, g)
        return out

def same(exp, got, path):
    t = exp["t"]
    def fail(): raise Err("%s: expected %s got %r" % (path, json.dumps(exp)[:200], got))
    if t == "null":
        if got is not None: fail()
    elif t == "bool":
        if got is not exp["v"]: fail()
    elif t == "int":
        if isinstance(got, bool) or not isinstance(got, int) or got != int(exp["v"]): fail()
    elif t == "real":
        if not isinstance(got, Real): fail()
        b = f32_bits(got.txt)
        if b != exp["bits"] and not ((b | exp["bits"]) & 0x7fffffff == 0): raise Err("%s: real %r gives bits %08x expected %08x" % (path, got.txt, b, exp["bits"]))
    elif t == "name":
        if not isinstance(got, Name) or got.b.hex() != exp["v"]: fail()
    elif t == "str":
        cls = HexStr if exp["hex"] else LitStr
        if not isinstance(got, cls) or got.b.hex() != exp["v"]:
            raise Err("%s: string differs: expected %s got %s" % (path, exp["v"][:80], got.b.hex()[:80] if hasattr(got, 'b') else got))
    elif t == "array":
        if not isinstance(got, list) or len(got) != len(exp["v"]) or (got and isinstance(got[0], tuple)): fail()
        for i, (a, b) in enumerate(zip(exp["v"], got)): same(a, b, path + "[%d]" % i)
    elif t == "dict":
        same_dict(exp["v"], got, path)
    elif t == "stream":
        if not isinstance(got, StreamObj): fail()
        same_dict(exp["v"], got.d, path)
        if got.body.hex() != exp["body"]: raise Err(path + ": body differs")
    elif t == "ref":
        if not isinstance(got, Ref) or (got.n, got.g) != (exp["n"], exp["g"]): fail()

def same_dict(ev, got, path):
    if not isinstance(got, list) or (got and not isinstance(got[0], tuple)) or len(got) != len(ev):
        raise Err("%s: dict differs %r" % (path, got))
    # order is preserved by the writer: check it too
    for (ek, evv), (gk, gv) in zip(ev, got):
        if ek != gk.hex(): raise Err("%s: key order/keys differ" % path)
        same(evv, gv, path + "/" + gk.decode('latin1'))

BOOK = [b"Size", b"Prev", b"XRefStm", b"Type", b"W", b"Index", b"Length", b"Filter", b"DecodeParms", b"Columns"]

def check(pdf, js):
    data = open(pdf, 'rb').read()
    j = json.load(open(js))
    for i, rev in enumerate(j["revisions"]):
        r = Reader(data[:rev["end"]], j["leading_junk"])
        if r.version.decode('latin1') != rev["version"]: raise Err("version")
        if r.is_stream != rev["xref_stream"]: raise Err("xref style")
        if r.size != rev["max_id"] + 1: raise Err("Size %d != max_id+1 %d" % (r.size, rev["max_id"] + 1))
        objs = r.all_objects()
        exp = {(n, g): o for n, g, o in rev["objects"]}
        for k, o in exp.items():
            if k not in objs: raise Err("rev %d: object %r missing" % (i, k))
            same(o, objs[k], "rev %d obj %d %d" % (i, k[0], k[1]))
        for k in objs:
            if k not in exp and k[0] not in rev["structural"]: raise Err("rev %d: unexpected object %r" % (i, k))
        for n in rev["structural"]:
            if (n, 0) not in objs: raise Err("structural %d missing" % n)
        tr = [(k, v) for k, v in r.trailer if k not in BOOK]
        et = rev["trailer"]["v"]
        if sorted(k.hex() for k, _ in tr) != sorted(k for k, _ in et): raise Err("trailer keys differ")
        for ek, evv in et:
            same(evv, dget(tr, bytes.fromhex(ek)), "trailer/" + ek)

def main():
    d = sys.argv[1]; bad = 0; n = 0
    for fn in sorted(os.listdir(d)):
        if not fn.endswith(".pdf"): continue
        n += 1
        try:
            check(os.path.join(d, fn), os.path.join(d, fn[:-4] + ".json"))
        except Err as e:
            bad += 1; print("FAIL", fn, e)
        except RecursionError:
            print("SKIP (recursion)", fn)
    print("checked %d files, %d failed" % (n, bad))

sys.setrecursionlimit(10000)
main()
