use simhook::baton;
use std::ops::{Deref, DerefMut};
use std::sync::{LockResult, PoisonError, TryLockError, TryLockResult};

#[derive(Debug, Default)]
pub struct Mutex<T: ?Sized> {
    inner: std::sync::Mutex<T>,
}

pub struct MutexGuard<'a, T: ?Sized + 'a> {
    guard: Option<std::sync::MutexGuard<'a, T>>,
    sim: Option<(std::sync::Arc<baton::Sched>, usize, usize)>,
}

impl<T> Mutex<T> {
    pub const fn new(t: T) -> Mutex<T> {
        Mutex { inner: std::sync::Mutex::new(t) }
    }
    pub fn into_inner(self) -> LockResult<T> {
        self.inner.into_inner()
    }
}

impl<T: ?Sized> Mutex<T> {
    fn id(&self) -> usize {
        &self.inner as *const _ as *const u8 as usize
    }

    pub fn lock(&self) -> LockResult<MutexGuard<'_, T>> {
        let sim = baton::current().map(|(s, me)| {
            s.acquire(me, self.id());
            (s, me, self.id())
        });
        // under Mode T the simulated owner is the only thread that can be here: never contended
        match self.inner.lock() {
            Ok(g) => Ok(MutexGuard { guard: Some(g), sim }),
            Err(p) => Err(PoisonError::new(MutexGuard { guard: Some(p.into_inner()), sim })),
        }
    }

    pub fn try_lock(&self) -> TryLockResult<MutexGuard<'_, T>> {
        let sim = match baton::current() {
            Some((s, me)) => {
                if !s.try_acquire(me, self.id()) {
                    return Err(TryLockError::WouldBlock);
                }
                Some((s, me, self.id()))
            }
            None => None,
        };
        match self.inner.try_lock() {
            Ok(g) => Ok(MutexGuard { guard: Some(g), sim }),
            Err(TryLockError::Poisoned(p)) => Err(TryLockError::Poisoned(PoisonError::new(MutexGuard { guard: Some(p.into_inner()), sim }))),
            Err(TryLockError::WouldBlock) => {
                if let Some((s, me, id)) = sim {
                    s.release(me, id);
                }
                Err(TryLockError::WouldBlock)
            }
        }
    }

    pub fn get_mut(&mut self) -> LockResult<&mut T> {
        self.inner.get_mut()
    }

    pub fn is_poisoned(&self) -> bool {
        self.inner.is_poisoned()
    }
}

impl<T> From<T> for Mutex<T> {
    fn from(t: T) -> Self {
        Mutex::new(t)
    }
}

impl<T: ?Sized> Deref for MutexGuard<'_, T> {
    type Target = T;
    fn deref(&self) -> &T {
        self.guard.as_ref().unwrap()
    }
}
impl<T: ?Sized> DerefMut for MutexGuard<'_, T> {
    fn deref_mut(&mut self) -> &mut T {
        self.guard.as_mut().unwrap()
    }
}
impl<T: ?Sized> Drop for MutexGuard<'_, T> {
    fn drop(&mut self) {
        // real unlock first, then the simulated release (a scheduling point)
        self.guard.take();
        if let Some((s, me, id)) = self.sim.take() {
            s.release(me, id);
        }
    }
}
