//! The two crate-boundary seams (scheduler for `rayon`, bytes for `rand`) meet the
//! simulator here. The shim crates call `with_hooks`; the simulator installs a
//! `SimHooks` object on the thread that runs the system under simulation.
//!
//! With nothing installed the shims behave like a plain sequential library
//! (items in order, RNG bytes from a fixed counter), so the same build can also
//! be used outside a simulation.

use std::cell::RefCell;

pub mod baton;

pub trait SimHooks {
    /// A parallel section with `n` items starts at `site`. Return the order
    /// (a permutation of `0..n`) in which the items complete.
    fn order(&mut self, n: usize, site: &'static str) -> Vec<usize>;
    /// `rayon::join`: true = run the second closure first.
    fn flip(&mut self, site: &'static str) -> bool;
    /// The system asks its RNG for `buf.len()` bytes.
    fn fill(&mut self, buf: &mut [u8]);
    /// Number of worker threads the simulated pool reports.
    fn num_threads(&mut self) -> usize {
        4
    }
    /// A free choice among `n` alternatives the real pool would make by timing
    /// (where a fold is split, which adjacent partial results are reduced next).
    fn choose(&mut self, _n: usize, _site: &'static str) -> usize {
        0
    }
    /// Mode T: run the next parallel section of `n` items on this many real
    /// threads under the baton scheduler, with the given chooser. `None` = Mode P.
    fn mode_t(&mut self, _n: usize) -> Option<(usize, baton::Chooser)> {
        None
    }
}

thread_local! {
    static HOOKS: RefCell<Option<Box<dyn SimHooks>>> = const { RefCell::new(None) };
    static FALLBACK_CTR: RefCell<u64> = const { RefCell::new(0) };
}

pub fn install(h: Box<dyn SimHooks>) -> Option<Box<dyn SimHooks>> {
    HOOKS.with(|c| c.borrow_mut().replace(h))
}

pub fn uninstall() -> Option<Box<dyn SimHooks>> {
    HOOKS.with(|c| c.borrow_mut().take())
}

/// Runs `f` with the installed hooks; `None` when no simulation is active.
/// The hooks are borrowed only for the duration of `f`, never while code of
/// the system under simulation runs, so nested parallel sections are fine.
pub fn with_hooks<R>(f: impl FnOnce(&mut dyn SimHooks) -> R) -> Option<R> {
    HOOKS.with(|c| {
        let mut b = c.borrow_mut();
        b.as_mut().map(|h| f(h.as_mut()))
    })
}

pub fn order(n: usize, site: &'static str) -> Vec<usize> {
    with_hooks(|h| h.order(n, site)).unwrap_or_else(|| (0..n).collect())
}

pub fn flip(site: &'static str) -> bool {
    with_hooks(|h| h.flip(site)).unwrap_or(false)
}

pub fn fill(buf: &mut [u8]) {
    if with_hooks(|h| h.fill(buf)).is_none() {
        // deterministic fallback outside a simulation: splitmix64 counter
        FALLBACK_CTR.with(|c| {
            let mut s = c.borrow_mut();
            for b in buf.iter_mut() {
                *s = s.wrapping_add(0x9E37_79B9_7F4A_7C15);
                let mut z = *s;
                z = (z ^ (z >> 30)).wrapping_mul(0xBF58_476D_1CE4_E5B9);
                z = (z ^ (z >> 27)).wrapping_mul(0x94D0_49BB_1331_11EB);
                *b = (z ^ (z >> 31)) as u8;
            }
        });
    }
}

pub fn mode_t(n: usize) -> Option<(usize, baton::Chooser)> {
    with_hooks(|h| h.mode_t(n)).flatten()
}

pub fn choose(n: usize, site: &'static str) -> usize {
    if n <= 1 {
        return 0;
    }
    with_hooks(|h| h.choose(n, site)).unwrap_or(0) % n
}

pub fn num_threads() -> usize {
    with_hooks(|h| h.num_threads()).unwrap_or(1)
}
