//! Mode T: real OS threads, simulated choice of who runs.
//!
//! Exactly one thread of a parallel section holds the *baton*; all others are
//! parked on a condition variable. Threads hand the baton over only at
//! intercepted points — before claiming the next item, before acquiring a
//! (seam) mutex, when a mutex is contended, after releasing it, when they
//! finish — and which runnable thread continues is decided by the simulator's
//! chooser (stream S). Real threads, simulated schedule: replays exactly.

//!
//! Allocation points (optional, per section): the process's global allocator
//! reports every allocation made by a worker while it runs code of the system
//! under simulation; at allocation ordinals drawn by the simulator the worker
//! is preempted there. This reaches interleavings *inside* a closure between
//! accesses to shared state the seam does not own (atomics, a mutex named by
//! its full path), without any hook in the code: whatever allocates between
//! two such accesses can be split there.
//!
//! A worker preempted at an allocation may hold a lock the simulator knows
//! nothing about; a thread that then blocks on that lock keeps the baton and
//! the section stalls. A waiting thread that sees no scheduling event for
//! `STALL` declares the section *broken*: every thread free-runs from then on
//! and the harness discards the run (it is neither a pass nor a violation).
//! On code that shares state only through the seam this never happens.

use std::cell::{Cell, RefCell};
use std::collections::BTreeMap;
use std::sync::atomic::{AtomicBool, AtomicU64, Ordering};
use std::sync::{Arc, Condvar, Mutex, MutexGuard};
use std::time::Duration;

/// A waiting thread looks every `POLL` at the thread that holds the baton: if no scheduling event
/// happened meanwhile and the kernel reports it asleep (blocked on a lock of its own) `SLEEPY`
/// times in a row, or nothing at all happened for `STALL`, the section is broken.
const POLL: Duration = Duration::from_millis(20);
const SLEEPY: u32 = 5;
const STALL: Duration = Duration::from_secs(10);

/// Kernel thread id of the caller (Linux: `/proc/thread-self` → `<pid>/task/<tid>`).
fn own_tid() -> u64 {
    std::fs::read_link("/proc/thread-self")
        .ok()
        .and_then(|p| p.file_name().and_then(|f| f.to_str()).and_then(|f| f.parse().ok()))
        .unwrap_or(0)
}
/// Is that thread asleep (state `S`)? A worker that runs parsing code never sleeps unless it waits for a lock.
fn asleep(tid: u64) -> bool {
    if tid == 0 {
        return false;
    }
    match std::fs::read_to_string(format!("/proc/self/task/{tid}/stat")) {
        // "<tid> (<comm>) <state> ...": the state follows the last ')'
        Ok(s) => s.rsplit(')').next().map(|r| r.trim_start().starts_with('S')).unwrap_or(false),
        Err(_) => false,
    }
}
static BROKEN_SEEN: AtomicBool = AtomicBool::new(false);
static PREEMPTIONS: AtomicU64 = AtomicU64::new(0);

/// True if a section was declared broken since the last call (the caller discards the run).
pub fn take_broken() -> bool {
    BROKEN_SEEN.swap(false, Ordering::SeqCst)
}
/// Number of preemptions at allocation points since the last call.
pub fn take_preemptions() -> u64 {
    PREEMPTIONS.swap(0, Ordering::SeqCst)
}

#[derive(Clone, Copy)]
struct Pre {
    /// the worker is inside code of the system under simulation
    active: bool,
    /// > 0 while scheduler / harness code runs on this thread
    suspended: u32,
    count: u64,
    next: u64,
    budget: u32,
}
thread_local! {
    static PRE: Cell<Pre> = const { Cell::new(Pre { active: false, suspended: 0, count: 0, next: u64::MAX, budget: 0 }) };
}

/// No preemption at allocation points while one of these is alive on the thread.
pub struct Suspend(());
impl Suspend {
    pub fn new() -> Suspend {
        let _ = PRE.try_with(|c| {
            let mut p = c.get();
            p.suspended += 1;
            c.set(p);
        });
        Suspend(())
    }
}
impl Default for Suspend {
    fn default() -> Self {
        Suspend::new()
    }
}
impl Drop for Suspend {
    fn drop(&mut self) {
        let _ = PRE.try_with(|c| {
            let mut p = c.get();
            p.suspended = p.suspended.saturating_sub(1);
            c.set(p);
        });
    }
}

/// Marks the stretch in which a worker runs code of the system under simulation.
pub struct Active(());
impl Active {
    pub fn new() -> Active {
        let _ = PRE.try_with(|c| {
            let mut p = c.get();
            p.active = true;
            c.set(p);
        });
        Active(())
    }
}
impl Default for Active {
    fn default() -> Self {
        Active::new()
    }
}
impl Drop for Active {
    fn drop(&mut self) {
        let _ = PRE.try_with(|c| {
            let mut p = c.get();
            p.active = false;
            c.set(p);
        });
    }
}

/// Called by the global allocator for every allocation of the process.
#[inline]
pub fn alloc_point() {
    let _ = PRE.try_with(|c| {
        let mut p = c.get();
        if !p.active || p.suspended > 0 {
            return;
        }
        p.count += 1;
        if p.count < p.next {
            c.set(p);
            return;
        }
        p.suspended += 1;
        c.set(p);
        if !std::thread::panicking() {
            if let Some((s, me)) = try_current() {
                PREEMPTIONS.fetch_add(1, Ordering::Relaxed);
                s.yield_point(me, "alloc");
                p.budget = p.budget.saturating_sub(1);
                p.next = if p.budget == 0 { u64::MAX } else { p.count + 1 + s.draw_gap() };
            } else {
                p.next = u64::MAX;
            }
        }
        p.suspended -= 1;
        c.set(p);
    });
}

/// Picks one of `n` alternatives at a yield point of the given kind.
pub type Chooser = Arc<Mutex<dyn FnMut(usize, &'static str) -> usize + Send>>;

#[derive(Clone, Copy, PartialEq, Eq, Debug)]
enum TState {
    Ready,
    Running,
    Blocked(usize),
    Done,
}

struct St {
    state: Vec<TState>,
    current: Option<usize>,
    owner: BTreeMap<usize, usize>,
    switches: u64,
    yields: u64,
    /// some worker of this section has a preemption budget: waits use a time-out
    preempting: bool,
    /// kernel thread ids of the workers (0 = unknown)
    tids: Vec<u64>,
    /// the section stalled on a lock the simulator does not own: everybody free-runs
    broken: bool,
}

pub struct Sched {
    st: Mutex<St>,
    /// one condition variable per thread: a hand-over wakes exactly the thread that gets the baton
    cvs: Vec<Condvar>,
    chooser: Chooser,
}

thread_local! {
    static CUR: RefCell<Option<(Arc<Sched>, usize)>> = const { RefCell::new(None) };
}

impl Sched {
    pub fn new(threads: usize, chooser: Chooser) -> Arc<Sched> {
        Arc::new(Sched {
            st: Mutex::new(St { state: vec![TState::Ready; threads], current: None, owner: BTreeMap::new(), switches: 0, yields: 0, preempting: false, tids: vec![0; threads], broken: false }),
            cvs: (0..threads).map(|_| Condvar::new()).collect(),
            chooser,
        })
    }

    pub fn choose(&self, n: usize, kind: &'static str) -> usize {
        if n <= 1 {
            return 0;
        }
        let _s = Suspend::new();
        let mut c = self.chooser.lock().unwrap_or_else(|e| e.into_inner());
        (c)(n, kind) % n
    }

    /// Called by the spawning thread once all workers are parked: hand out the baton.
    pub fn start(&self) {
        let mut st = self.st.lock().unwrap();
        let ready: Vec<usize> = (0..st.state.len()).filter(|&i| st.state[i] == TState::Ready).collect();
        if ready.is_empty() {
            return;
        }
        let pick = ready[self.choose(ready.len(), "start")];
        st.state[pick] = TState::Running;
        st.current = Some(pick);
        self.cvs[pick].notify_one();
    }

    /// Worker entry: register on this thread and wait for the baton.
    pub fn enter(self: &Arc<Self>, me: usize) {
        let _s = Suspend::new();
        CUR.with(|c| *c.borrow_mut() = Some((self.clone(), me)));
        let st = self.st.lock().unwrap();
        let mut st = self.wait_for_baton(st, me);
        // the worker's preemption plan: how many allocation points, and the first of them
        let budget = self.choose(4, "alloc-preempt-budget") as u32;
        st.tids[me] = own_tid();
        if budget > 0 {
            st.preempting = true;
        }
        drop(st);
        let next = if budget == 0 { u64::MAX } else { 1 + self.draw_gap() };
        let _ = PRE.try_with(|c| {
            let mut p = c.get();
            p.count = 0;
            p.budget = budget;
            p.next = next;
            c.set(p);
        });
    }

    /// Distance (in allocations of this worker) to its next preemption.
    fn draw_gap(&self) -> u64 {
        let scale = [4usize, 32, 256, 2048][self.choose(4, "alloc-gap-scale")];
        self.choose(scale, "alloc-gap") as u64
    }

    /// Parks the caller until it holds the baton (or the section is broken).
    fn wait_for_baton<'a>(&'a self, mut st: MutexGuard<'a, St>, me: usize) -> MutexGuard<'a, St> {
        loop {
            if st.broken || st.current == Some(me) {
                return st;
            }
            if st.preempting {
                let (seen, began) = (st.yields, std::time::Instant::now());
                let mut sleepy = 0;
                loop {
                    let (g, to) = self.cvs[me].wait_timeout(st, POLL).unwrap();
                    st = g;
                    if st.broken || st.current == Some(me) {
                        return st;
                    }
                    if !to.timed_out() {
                        continue;
                    }
                    if st.yields != seen {
                        break; // the section moves on: start over
                    }
                    let holder = st.current.map(|h| st.tids[h]).unwrap_or(0);
                    sleepy = if asleep(holder) { sleepy + 1 } else { 0 };
                    if sleepy >= SLEEPY || began.elapsed() >= STALL {
                        st.broken = true;
                        BROKEN_SEEN.store(true, Ordering::SeqCst);
                        for cv in &self.cvs {
                            cv.notify_all();
                        }
                        return st;
                    }
                }
            } else {
                st = self.cvs[me].wait(st).unwrap();
            }
        }
    }

    /// Hand the baton to one of the runnable threads (possibly the caller itself).
    fn reschedule<'a>(&'a self, mut st: MutexGuard<'a, St>, me: usize, kind: &'static str) {
        if st.broken {
            return;
        }
        st.yields += 1;
        let runnable: Vec<usize> = (0..st.state.len()).filter(|&i| matches!(st.state[i], TState::Ready | TState::Running)).collect();
        if runnable.is_empty() {
            // everyone else is blocked or done and the caller cannot run either: a deadlock of the system under test
            if st.state.iter().any(|s| matches!(s, TState::Blocked(_))) {
                st.current = None;
                drop(st);
                panic!("sim: deadlock — every thread of the parallel section is blocked on a mutex");
            }
            st.current = None;
            return;
        }
        let next = runnable[self.choose(runnable.len(), kind)];
        if next != me {
            st.switches += 1;
            if st.state[me] == TState::Running {
                st.state[me] = TState::Ready;
            }
            st.state[next] = TState::Running;
            st.current = Some(next);
            self.cvs[next].notify_one();
            if matches!(st.state[me], TState::Done) {
                return;
            }
            st = self.wait_for_baton(st, me);
            st.state[me] = TState::Running;
        }
    }

    pub fn yield_point(&self, me: usize, kind: &'static str) {
        let _s = Suspend::new();
        let st = self.st.lock().unwrap();
        self.reschedule(st, me, kind);
    }

    /// Simulated acquisition of the mutex identified by `id`.
    pub fn acquire(&self, me: usize, id: usize) {
        let _s = Suspend::new();
        self.yield_point(me, "lock");
        loop {
            let mut st = self.st.lock().unwrap();
            if st.broken {
                return; // the real mutex underneath decides from here on
            }
            match st.owner.get(&id) {
                None => {
                    st.owner.insert(id, me);
                    // inside the critical section: others may run now and find the mutex taken
                    self.reschedule(st, me, "locked");
                    return;
                }
                Some(_) => {
                    st.state[me] = TState::Blocked(id);
                    self.reschedule(st, me, "contended");
                }
            }
        }
    }

    pub fn try_acquire(&self, me: usize, id: usize) -> bool {
        let _s = Suspend::new();
        self.yield_point(me, "try-lock");
        let mut st = self.st.lock().unwrap();
        if st.broken {
            return true;
        }
        if st.owner.contains_key(&id) {
            false
        } else {
            st.owner.insert(id, me);
            true
        }
    }

    pub fn release(&self, me: usize, id: usize) {
        let _s = Suspend::new();
        {
            let mut st = self.st.lock().unwrap();
            st.owner.remove(&id);
            for s in st.state.iter_mut() {
                if *s == TState::Blocked(id) {
                    *s = TState::Ready;
                }
            }
        }
        // no scheduling point while unwinding: a panicking thread must not park
        if !std::thread::panicking() {
            self.yield_point(me, "unlock");
        }
    }

    /// Worker exit (normal or by panic): give the baton away for good.
    pub fn finish(&self, me: usize) {
        let _s = Suspend::new();
        let _ = PRE.try_with(|c| {
            let mut p = c.get();
            p.active = false;
            p.next = u64::MAX;
            p.budget = 0;
            c.set(p);
        });
        CUR.with(|c| *c.borrow_mut() = None);
        let mut st = self.st.lock().unwrap();
        st.state[me] = TState::Done;
        // a dying thread releases what it still owns (poisoning is std's business)
        let owned: Vec<usize> = st.owner.iter().filter(|(_, o)| **o == me).map(|(k, _)| *k).collect();
        for id in owned {
            st.owner.remove(&id);
            for s in st.state.iter_mut() {
                if *s == TState::Blocked(id) {
                    *s = TState::Ready;
                }
            }
        }
        self.reschedule(st, me, "finish");
    }

    pub fn stats(&self) -> (u64, u64) {
        let st = self.st.lock().unwrap();
        (st.yields, st.switches)
    }
}

/// The scheduler and thread id of the calling thread, if it is a Mode T worker.
pub fn current() -> Option<(Arc<Sched>, usize)> {
    CUR.with(|c| c.borrow().clone())
}
fn try_current() -> Option<(Arc<Sched>, usize)> {
    CUR.try_with(|c| c.try_borrow().ok().and_then(|b| b.clone())).ok().flatten()
}

/// Yield point usable from anywhere in code running under Mode T (no-op otherwise).
pub fn yield_now(kind: &'static str) {
    if let Some((s, me)) = current() {
        s.yield_point(me, kind);
    }
}
