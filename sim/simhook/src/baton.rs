//! Mode T: real OS threads, simulated choice of who runs.
//!
//! Exactly one thread of a parallel section holds the *baton*; all others are
//! parked on a condition variable. Threads hand the baton over only at
//! intercepted points — before claiming the next item, before acquiring a
//! (seam) mutex, when a mutex is contended, after releasing it, when they
//! finish — and which runnable thread continues is decided by the simulator's
//! chooser (stream S). Real threads, simulated schedule: replays exactly.

use std::cell::RefCell;
use std::collections::BTreeMap;
use std::sync::{Arc, Condvar, Mutex};

/// Picks one of `n` alternatives at a yield point of the given kind.
pub type Chooser = Arc<Mutex<dyn FnMut(usize, &'static str) -> usize + Send>>;

#[derive(Clone, Copy, PartialEq, Eq, Debug)]
enum TState {
    Ready,
    Running,
    Blocked(usize),
    Done,
}

struct St {
    state: Vec<TState>,
    current: Option<usize>,
    owner: BTreeMap<usize, usize>,
    switches: u64,
    yields: u64,
}

pub struct Sched {
    st: Mutex<St>,
    /// one condition variable per thread: a hand-over wakes exactly the thread that gets the baton
    cvs: Vec<Condvar>,
    chooser: Chooser,
}

thread_local! {
    static CUR: RefCell<Option<(Arc<Sched>, usize)>> = const { RefCell::new(None) };
}

impl Sched {
    pub fn new(threads: usize, chooser: Chooser) -> Arc<Sched> {
        Arc::new(Sched {
            st: Mutex::new(St { state: vec![TState::Ready; threads], current: None, owner: BTreeMap::new(), switches: 0, yields: 0 }),
            cvs: (0..threads).map(|_| Condvar::new()).collect(),
            chooser,
        })
    }

    pub fn choose(&self, n: usize, kind: &'static str) -> usize {
        if n <= 1 {
            return 0;
        }
        let mut c = self.chooser.lock().unwrap_or_else(|e| e.into_inner());
        (c)(n, kind) % n
    }

    /// Called by the spawning thread once all workers are parked: hand out the baton.
    pub fn start(&self) {
        let mut st = self.st.lock().unwrap();
        let ready: Vec<usize> = (0..st.state.len()).filter(|&i| st.state[i] == TState::Ready).collect();
        if ready.is_empty() {
            return;
        }
        let pick = ready[self.choose(ready.len(), "start")];
        st.state[pick] = TState::Running;
        st.current = Some(pick);
        self.cvs[pick].notify_one();
    }

    /// Worker entry: register on this thread and wait for the baton.
    pub fn enter(self: &Arc<Self>, me: usize) {
        CUR.with(|c| *c.borrow_mut() = Some((self.clone(), me)));
        let mut st = self.st.lock().unwrap();
        while st.current != Some(me) {
            st = self.cvs[me].wait(st).unwrap();
        }
    }

    /// Hand the baton to one of the runnable threads (possibly the caller itself).
    fn reschedule(&self, mut st: std::sync::MutexGuard<'_, St>, me: usize, kind: &'static str) {
        st.yields += 1;
        let runnable: Vec<usize> = (0..st.state.len()).filter(|&i| matches!(st.state[i], TState::Ready | TState::Running)).collect();
        if runnable.is_empty() {
            // everyone else is blocked or done and the caller cannot run either: a deadlock of the system under test
            if st.state.iter().any(|s| matches!(s, TState::Blocked(_))) {
                st.current = None;
                drop(st);
                panic!("sim: deadlock — every thread of the parallel section is blocked on a mutex");
            }
            st.current = None;
            return;
        }
        let next = runnable[self.choose(runnable.len(), kind)];
        if next != me {
            st.switches += 1;
            if st.state[me] == TState::Running {
                st.state[me] = TState::Ready;
            }
            st.state[next] = TState::Running;
            st.current = Some(next);
            self.cvs[next].notify_one();
            if matches!(st.state[me], TState::Done) {
                return;
            }
            while st.current != Some(me) {
                st = self.cvs[me].wait(st).unwrap();
            }
            st.state[me] = TState::Running;
        }
    }

    pub fn yield_point(&self, me: usize, kind: &'static str) {
        let st = self.st.lock().unwrap();
        self.reschedule(st, me, kind);
    }

    /// Simulated acquisition of the mutex identified by `id`.
    pub fn acquire(&self, me: usize, id: usize) {
        self.yield_point(me, "lock");
        loop {
            let mut st = self.st.lock().unwrap();
            match st.owner.get(&id) {
                None => {
                    st.owner.insert(id, me);
                    // inside the critical section: others may run now and find the mutex taken
                    self.reschedule(st, me, "locked");
                    return;
                }
                Some(_) => {
                    st.state[me] = TState::Blocked(id);
                    self.reschedule(st, me, "contended");
                }
            }
        }
    }

    pub fn try_acquire(&self, me: usize, id: usize) -> bool {
        self.yield_point(me, "try-lock");
        let mut st = self.st.lock().unwrap();
        if st.owner.contains_key(&id) {
            false
        } else {
            st.owner.insert(id, me);
            true
        }
    }

    pub fn release(&self, me: usize, id: usize) {
        {
            let mut st = self.st.lock().unwrap();
            st.owner.remove(&id);
            for s in st.state.iter_mut() {
                if *s == TState::Blocked(id) {
                    *s = TState::Ready;
                }
            }
        }
        // no scheduling point while unwinding: a panicking thread must not park
        if !std::thread::panicking() {
            self.yield_point(me, "unlock");
        }
    }

    /// Worker exit (normal or by panic): give the baton away for good.
    pub fn finish(&self, me: usize) {
        CUR.with(|c| *c.borrow_mut() = None);
        let mut st = self.st.lock().unwrap();
        st.state[me] = TState::Done;
        // a dying thread releases what it still owns (poisoning is std's business)
        let owned: Vec<usize> = st.owner.iter().filter(|(_, o)| **o == me).map(|(k, _)| *k).collect();
        for id in owned {
            st.owner.remove(&id);
            for s in st.state.iter_mut() {
                if *s == TState::Blocked(id) {
                    *s = TState::Ready;
                }
            }
        }
        self.reschedule(st, me, "finish");
    }

    pub fn stats(&self) -> (u64, u64) {
        let st = self.st.lock().unwrap();
        (st.yields, st.switches)
    }
}

/// The scheduler and thread id of the calling thread, if it is a Mode T worker.
pub fn current() -> Option<(Arc<Sched>, usize)> {
    CUR.with(|c| c.borrow().clone())
}

/// Yield point usable from anywhere in code running under Mode T (no-op otherwise).
pub fn yield_now(kind: &'static str) {
    if let Some((s, me)) = current() {
        s.yield_point(me, kind);
    }
}
