//! The three lopdf builds (same sources from /repo, different seams).

pub mod sim {
    pub use lopdf_sim as lopdf;
    include!("adapter.rs");
}
pub mod seq {
    pub use lopdf_seq as lopdf;
    include!("adapter.rs");
}
pub mod real {
    pub use lopdf_real as lopdf;
    include!("adapter.rs");
}
