//! C04 — hostile bytes, restricted to what faults can produce: valid artefacts
//! (files from every world, with fonts/CMaps, filter chains, text strings,
//! object streams, xref streams) are hit by storage faults and read faults and
//! then given to every byte-level entry point. The call must return.

use crate::common::*;
use crate::runner::{guarded, RunOut, Violation};
use crate::variants::{seq, sim};
use pdfmodel::pagegen;
use pdfmodel::refwriter::{self, Revision};
use pdfmodel::{MDict, MDoc, MObj};
use sim::lopdf;
use simcore::io::draw_benign_source;
use simcore::{Ctx, SchedPolicy, SimSource, SourceCfg, Stream::F, Stream::W};
use std::io::Write;

fn nm(s: &str) -> Vec<u8> {
    s.as_bytes().to_vec()
}
fn name(s: &str) -> MObj {
    MObj::Name(nm(s))
}

fn ascii85(data: &[u8]) -> Vec<u8> {
    let mut out = Vec::new();
    for ch in data.chunks(4) {
        let mut b = [0u8; 4];
        b[..ch.len()].copy_from_slice(ch);
        let mut v = u32::from_be_bytes(b);
        if ch.len() == 4 && v == 0 {
            out.push(b'z');
            continue;
        }
        let mut d = [0u8; 5];
        for i in (0..5).rev() {
            d[i] = (v % 85) as u8 + b'!';
            v /= 85;
        }
        out.extend_from_slice(&d[..ch.len() + 1]);
    }
    out.extend_from_slice(b"~>");
    out
}

fn flate(data: &[u8]) -> Vec<u8> {
    let mut e = flate2::write::ZlibEncoder::new(Vec::new(), flate2::Compression::default());
    e.write_all(data).unwrap();
    e.finish().unwrap()
}

fn lzw(data: &[u8]) -> Vec<u8> {
    weezl::encode::Encoder::with_tiff_size_switch(weezl::BitOrder::Msb, 8).encode(data).unwrap_or_default()
}

/// PNG predictor encoding over rows of `columns` bytes (one byte per pixel); the row filter
/// type (None, Sub, Up, Average, Paeth) is drawn per row, as predictor 15 allows.
fn png_rows(ctx: &Ctx, data: &[u8], columns: usize) -> Vec<u8> {
    let mut out = Vec::new();
    let mut prev = vec![0u8; columns];
    for row in data.chunks(columns) {
        let mut r = row.to_vec();
        r.resize(columns, 0);
        let ft = ctx.draw(W, 5, "png-row-filter") as u8;
        out.push(ft);
        for i in 0..columns {
            let a = if i >= 1 { r[i - 1] } else { 0 } as i32;
            let b = prev[i] as i32;
            let c = if i >= 1 { prev[i - 1] } else { 0 } as i32;
            let pred = match ft {
                0 => 0,
                1 => a,
                2 => b,
                3 => (a + b) / 2,
                _ => {
                    let p = a + b - c;
                    let (pa, pb, pc) = ((p - a).abs(), (p - b).abs(), (p - c).abs());
                    if pa <= pb && pa <= pc {
                        a
                    } else if pb <= pc {
                        b
                    } else {
                        c
                    }
                }
            };
            out.push(r[i].wrapping_sub(pred as u8));
        }
        prev = r;
    }
    out
}

fn gen_cmap(ctx: &Ctx) -> Vec<u8> {
    // code width: two bytes mostly; one, three and four bytes are legal too
    let w = [2usize, 2, 2, 1, 3, 4][ctx.draw(W, 6, "cmap-code-width") as usize];
    let hex = |v: u64| format!("{:0width$X}", v & ((1u64 << (8 * w)) - 1), width = 2 * w);
    let top = (1u64 << (8 * w)) - 1;
    let mut s = format!(
        "/CIDInit /ProcSet findresource begin\n12 dict begin\nbegincmap\n/CIDSystemInfo << /Registry (Adobe) /Ordering (UCS) /Supplement 0 >> def\n/CMapName /Adobe-Identity-UCS def\n/CMapType 2 def\n1 begincodespacerange\n<{}> <{}>\nendcodespacerange\n",
        hex(0),
        hex(top)
    );
    let n = 1 + ctx.draw(W, 6, "cmap-bfchar-n");
    s.push_str(&format!("{n} beginbfchar\n"));
    for i in 0..n {
        s.push_str(&format!("<{}> <{:04X}>\n", hex(1 + i * 3), 0x41 + ctx.draw(W, 500, "cmap-target")));
    }
    s.push_str("endbfchar\n");
    let m = 1 + ctx.draw(W, 4, "cmap-bfrange-n");
    s.push_str(&format!("{m} beginbfrange\n"));
    for i in 0..m {
        let lo = if w == 1 { 0x20 + i * 0x18 } else { 0x100 + i * 0x40 };
        match ctx.draw(W, 4, "cmap-range-form") {
            0 => s.push_str(&format!("<{}> <{}> [<0061> <0062> <D83DDE00>]\n", hex(lo), hex(lo + 2))),
            // one target of several UTF-16 units (a surrogate pair, a ligature) for the whole range
            1 => s.push_str(&format!(
                "<{}> <{}> <{}>\n",
                hex(lo),
                hex(lo + ctx.draw(W, 20, "cmap-range-len")),
                ["D83DDE00", "00660069", "0041030A0301"][ctx.draw(W, 3, "cmap-multi-unit") as usize]
            )),
            _ => s.push_str(&format!("<{}> <{}> <{:04X}>\n", hex(lo), hex(lo + ctx.draw(W, 20, "cmap-range-len")), 0x3B1 + i)),
        }
    }
    s.push_str("endbfrange\nendcmap\nCMapName currentdict /CMap defineresource pop\nend\nend\n");
    s.into_bytes()
}

/// The hexadecimal tokens of a CMap (codes, range ends, targets): where a digit edit changes a count.
fn cmap_hot(cm: &[u8]) -> Vec<(usize, usize)> {
    let mut out = Vec::new();
    let mut i = 0;
    while i < cm.len() {
        if cm[i] == b'<' && cm.get(i + 1) != Some(&b'<') {
            let j = cm[i..].iter().position(|&c| c == b'>').map_or(cm.len(), |p| i + p);
            out.push((i + 1, j));
            i = j;
        }
        i += 1;
    }
    out
}

/// A page-tree document enriched with everything the byte-level entry points decode.
fn rich_doc(ctx: &Ctx) -> MDoc {
    let pd = pagegen::gen_page_doc(ctx);
    let mut m = pd.doc;
    let mut next = m.max_id;
    let mut add = |m: &mut MDoc, o: MObj| -> (u32, u16) {
        next += 1;
        m.objects.insert((next, 0), o);
        (next, 0)
    };
    let stream = |mut d: MDict, body: Vec<u8>| -> MObj {
        d.push((nm("Length"), MObj::Int(body.len() as i64)));
        MObj::Stream(d, body)
    };
    // ToUnicode CMap + Type0 font
    let cmap = gen_cmap(ctx);
    let cm_body = if ctx.chance(W, 1, 2, "cmap-flate") { (vec![(nm("Filter"), name("FlateDecode"))], flate(&cmap)) } else { (vec![], cmap) };
    let cm = add(&mut m, stream(cm_body.0, cm_body.1));
    let font = add(
        &mut m,
        MObj::Dict(vec![
            (nm("Type"), name("Font")),
            (nm("Subtype"), name("Type0")),
            (nm("BaseFont"), name("AAAAAA+Sim")),
            (nm("Encoding"), name("Identity-H")),
            (nm("ToUnicode"), MObj::Ref(cm.0, cm.1)),
        ]),
    );
    // streams with filter chains
    let n_chains = 1 + ctx.draw(W, 3, "chains-n");
    let mut extra_refs = vec![MObj::Ref(font.0, font.1)];
    for _ in 0..n_chains {
        let plain = pdfmodel::gen::gen_bytes(ctx, pdfmodel::gen::Alphabet::Binary, 200);
        let mut data = plain;
        let mut filters: Vec<MObj> = Vec::new();
        let mut parms: Vec<MObj> = Vec::new();
        for _ in 0..1 + ctx.draw(W, 3, "chain-len") {
            // filters are applied in reverse order of the Filter array: build inside-out
            match ctx.draw(W, 4, "chain-filter") {
                0 => {
                    data = flate(&data);
                    filters.insert(0, name("FlateDecode"));
                    parms.insert(0, MObj::Null);
                }
                1 => {
                    let columns = 1 + ctx.draw(W, 12, "pred-columns") as usize;
                    let rows = png_rows(ctx, &data, columns);
                    let lzw_too = ctx.chance(W, 1, 3, "pred-lzw");
                    data = if lzw_too { lzw(&rows) } else { flate(&rows) };
                    filters.insert(0, name(if lzw_too { "LZWDecode" } else { "FlateDecode" }));
                    parms.insert(0, MObj::Dict(vec![(nm("Predictor"), MObj::Int(10 + ctx.draw(W, 6, "predictor") as i64)), (nm("Columns"), MObj::Int(columns as i64))]));
                }
                2 => {
                    data = lzw(&data);
                    filters.insert(0, name("LZWDecode"));
                    parms.insert(0, MObj::Null);
                }
                _ => {
                    data = ascii85(&data);
                    filters.insert(0, name("ASCII85Decode"));
                    parms.insert(0, MObj::Null);
                }
            }
        }
        let mut d: MDict = Vec::new();
        if filters.len() == 1 && ctx.chance(W, 1, 2, "single-filter-name") {
            d.push((nm("Filter"), filters[0].clone()));
            if parms[0] != MObj::Null {
                d.push((nm("DecodeParms"), parms[0].clone()));
            }
        } else {
            d.push((nm("Filter"), MObj::Array(filters)));
            if parms.iter().any(|p| *p != MObj::Null) {
                d.push((nm("DecodeParms"), MObj::Array(parms)));
            }
        }
        let id = add(&mut m, stream(d, data));
        extra_refs.push(MObj::Ref(id.0, id.1));
    }
    // text strings
    let title: Vec<u8> = {
        let mut v = vec![0xFE, 0xFF];
        for u in "Titel \u{3b1}\u{1F600}".encode_utf16() {
            v.extend_from_slice(&u.to_be_bytes());
        }
        v
    };
    let info = add(&mut m, MObj::Dict(vec![(nm("Title"), MObj::Str(title, true)), (nm("Author"), MObj::Str(b"\xEF\xBB\xBFutf8 \xC3\xA9".to_vec(), false)), (nm("Subject"), MObj::Str(b"plain".to_vec(), false))]));
    pdfmodel::dict_set(&mut m.trailer, b"Info", MObj::Ref(info.0, info.1));
    let holder = add(&mut m, MObj::Array(extra_refs));
    if let Some(MObj::Ref(a, b)) = pdfmodel::dict_get(&m.trailer, b"Root").cloned() {
        if let Some(MObj::Dict(cat)) = m.objects.get_mut(&(a, b)) {
            cat.push((nm("SimExtras"), MObj::Ref(holder.0, holder.1)));
        }
    }
    m.max_id = next;
    m
}

/// Structural spans of an arbitrary PDF image, found by scanning for the keys
/// whose values are lengths, offsets, counts and widths.
fn scan_hot(img: &[u8]) -> Vec<(usize, usize)> {
    // the file tail (startxref / %%EOF) several times, so that it is hit as often as the many keyed fields
    let mut tail = vec![(img.len().saturating_sub(16), img.len()); 6];
    tail.extend(scan_hot_keys(img));
    tail
}

fn scan_hot_keys(img: &[u8]) -> Vec<(usize, usize)> {
    let keys: [&[u8]; 14] = [b"/Length", b"/W", b"/Index", b"/N", b"/First", b"/Prev", b"/Size", b"/Columns", b"/Predictor", b"startxref", b"xref", b"/Filter", b"/Kids", b"/Count"];
    let mut out = Vec::new();
    for k in keys {
        let mut i = 0;
        while i + k.len() <= img.len() {
            if &img[i..i + k.len()] == k {
                out.push((i, (i + k.len() + 14).min(img.len())));
                i += k.len();
            } else {
                i += 1;
            }
        }
    }
    out
}

thread_local! {
    /// key names of the encryption dictionary of the current (encrypted) base image
    static ENC_KEY_SPANS: std::cell::RefCell<Vec<(usize, usize)>> = const { std::cell::RefCell::new(Vec::new()) };
}
thread_local! {
    /// where the current base image stores integers that serve as a deferred stream Length (reach probe only)
    static LENGTH_OBJECT_SPANS: std::cell::RefCell<Vec<(usize, usize)>> = const { std::cell::RefCell::new(Vec::new()) };
}
fn note_length_objects(fields: &[(usize, usize, refwriter::FieldKind)]) {
    let v: Vec<(usize, usize)> = fields.iter().filter(|f| f.2 == refwriter::FieldKind::LengthObject).map(|f| (f.0, f.1)).collect();
    LENGTH_OBJECT_SPANS.with(|c| *c.borrow_mut() = v);
}

fn base_image(ctx: &Ctx) -> Result<(Vec<u8>, Option<Vec<u8>>, Vec<(usize, usize)>, &'static str), Violation> {
    match ctx.draw(W, 8, "c04-base") {
        7 => {
            // a document encrypted for the empty user password and saved by lopdf: the loader decrypts
            // it on its own, so damaged ciphertext (padding, IVs, the encryption dictionary) reaches
            // the decryption code through `load_mem`
            use crate::scen_d::{mk, Kind};
            use lopdf::{EncryptionState, EncryptionVersion, Permissions};
            use std::collections::BTreeMap;
            let mut m = rich_doc(ctx);
            let id0: Vec<u8> = (0..16).map(|_| ctx.draw(W, 256, "id") as u8).collect();
            m.trailer.push((nm("ID"), MObj::Array(vec![MObj::Str(id0.clone(), true), MObj::Str(id0, true)])));
            let mut d = sim::to_doc(&m);
            let perms = Permissions::all();
            let fek: Vec<u8> = (0..32).map(|_| ctx.draw(W, 256, "fek") as u8).collect();
            let which = ctx.draw(W, 5, "enc-version");
            let state = {
                let for_state = d.clone();
                let cf = |k: Kind| BTreeMap::from([(b"StdCF".to_vec(), mk(k))]);
                let v = match which {
                    0 => EncryptionVersion::V1 { document: &for_state, owner_password: "owner", user_password: "", permissions: perms },
                    1 => EncryptionVersion::V2 { document: &for_state, owner_password: "owner", user_password: "", key_length: 128, permissions: perms },
                    2 | 3 => EncryptionVersion::V4 {
                        document: &for_state,
                        encrypt_metadata: true,
                        crypt_filters: cf(if which == 2 { Kind::Aes128 } else { Kind::Rc4 }),
                        stream_filter: b"StdCF".to_vec(),
                        string_filter: b"StdCF".to_vec(),
                        owner_password: "owner",
                        user_password: "",
                        permissions: perms,
                    },
                    _ => EncryptionVersion::V5 {
                        encrypt_metadata: true,
                        crypt_filters: cf(Kind::Aes256),
                        file_encryption_key: &fek,
                        stream_filter: b"StdCF".to_vec(),
                        string_filter: b"StdCF".to_vec(),
                        owner_password: "owner",
                        user_password: "",
                        permissions: perms,
                    },
                };
                guarded("EncryptionState::try_from", || EncryptionState::try_from(v))?
            };
            let mut img = Vec::new();
            if let Ok(state) = state {
                if guarded("Document::encrypt", || d.encrypt(&state))?.is_ok() {
                    ctx.count("base-encrypted");
                }
            }
            guarded("save_to", || d.save_to(&mut img))?.map_err(|e| Violation::new("healthy-save-failed", e.to_string()))?;
            let mut hot = scan_hot(&img);
            // the last two cipher blocks of every stream body (padding lives there) and the key material
            let mut i = 0;
            while let Some(p) = img[i..].windows(10).position(|w| w == b"\nendstream") {
                let at = i + p;
                hot.push((at.saturating_sub(32), at));
                i = at + 10;
            }
            // the encryption dictionary: every key name (a damaged name is a missing entry) and the
            // start of every value, weighted so that they are hit about as often as all the rest
            for k in [&b"/O"[..], b"/U", b"/OE", b"/UE", b"/Perms", b"/V ", b"/R ", b"/Length", b"/CFM", b"/P ", b"/CF", b"/StmF", b"/StrF", b"/EncryptMetadata", b"/Filter/Standard", b"/Encrypt"] {
                if let Some(p) = img.windows(k.len()).rposition(|w| w == k) {
                    ENC_KEY_SPANS.with(|c| c.borrow_mut().push((p, p + k.len())));
                    for _ in 0..3 {
                        hot.push((p, p + k.len()));
                    }
                    for _ in 0..2 {
                        hot.push((p + k.len(), (p + k.len() + 40).min(img.len())));
                    }
                }
            }
            Ok((img, None, hot, "lopdf-encrypted document (empty user password)"))
        }
        6 => {
            // legal deep nesting (PDF sets no nesting limit); block duplication deepens it further
            let depth = 200 + ctx.draw(W, 1300, "nest-depth") as usize;
            let mut o = MObj::Int(1);
            for i in 0..depth {
                o = if i % 7 == 3 && ctx.chance(W, 1, 2, "nest-dict") { MObj::Dict(vec![(nm("K"), o)]) } else { MObj::Array(vec![o]) };
            }
            let mut m = MDoc::empty();
            m.objects.insert((1, 0), MObj::Dict(vec![(nm("Type"), name("Catalog")), (nm("Deep"), MObj::Ref(2, 0))]));
            m.objects.insert((2, 0), o);
            m.trailer.push((nm("Root"), MObj::Ref(1, 0)));
            m.max_id = 2;
            m.xref_stream = ctx.chance(W, 1, 2, "xref-stream");
            let mut d = sim::to_doc(&m);
            let mut img = Vec::new();
            guarded("save_to", || d.save_to(&mut img))?.map_err(|e| Violation::new("healthy-save-failed", e.to_string()))?;
            ctx.count("base-deep-nesting");
            // the run of opening brackets is where in-flight structural state lives
            let first = img.iter().position(|&c| c == b'[').unwrap_or(0);
            let hot = vec![(first, (first + depth).min(img.len()))];
            Ok((img, None, hot, "deeply nested document"))
        }
        0 | 1 => {
            // rich document saved by lopdf itself
            let m = rich_doc(ctx);
            let mut d = sim::to_doc(&m);
            if ctx.chance(W, 1, 3, "compress") {
                d.compress();
            }
            let mut img = Vec::new();
            guarded("save_to", || d.save_to(&mut img))?.map_err(|e| Violation::new("healthy-save-failed", e.to_string()))?;
            let hot = scan_hot(&img);
            Ok((img, None, hot, "lopdf-saved rich document"))
        }
        2 | 3 => {
            // the same kind of document through the reference writer (object streams, xref streams, predictors)
            let m = rich_doc(ctx);
            let revs = vec![Revision { objects: m.objects.clone(), trailer: pdfmodel::trailer_payload(&m.trailer) }];
            let mut opts = refwriter::draw_opts(ctx, 1, "1.6", &[0xE2, 0xE3, 0xCF, 0xD3]);
            opts.raw_cr_eol = false;
            let w = refwriter::write_history(ctx, &revs, &opts);
            let mut hot: Vec<(usize, usize)> = w.layout.fields.iter().map(|f| (f.0, f.1)).collect();
            hot.extend(scan_hot(&w.bytes));
            note_length_objects(&w.layout.fields);
            Ok((w.bytes, None, hot, "reference-writer rich document"))
        }
        4 => {
            // multi-revision history (stale blocks and splices have an older image to draw from)
            let h = crate::scen_b::gen_history(ctx, 3, true, false, false);
            let last = h.revisions.len() - 1;
            let older = if last > 0 { Some(h.written.bytes[..h.written.layout.revision_ends[last - 1]].to_vec()) } else { None };
            let mut hot: Vec<(usize, usize)> = h.written.layout.fields.iter().map(|f| (f.0, f.1)).collect();
            hot.extend(scan_hot(&h.written.bytes));
            note_length_objects(&h.written.layout.fields);
            Ok((h.written.bytes.clone(), older, hot, "reference-writer history"))
        }
        _ => {
            // repository assets
            let names = ["example.pdf", "Incremental.pdf", "unicode.pdf"];
            let n = names[ctx.draw(W, names.len() as u64, "asset") as usize];
            let root = std::env::var("VERIF_REPO").unwrap_or_else(|_| "/repo".into());
            match std::fs::read(format!("{root}/assets/{n}")) {
                Ok(img) if !img.is_empty() => {
                    let hot = scan_hot(&img);
                    Ok((img, None, hot, "repository asset"))
                }
                _ => {
                    let m = rich_doc(ctx);
                    let mut d = sim::to_doc(&m);
                    let mut img = Vec::new();
                    guarded("save_to", || d.save_to(&mut img))?.map_err(|e| Violation::new("healthy-save-failed", e.to_string()))?;
                    let hot = scan_hot(&img);
                    Ok((img, None, hot, "lopdf-saved rich document"))
                }
            }
        }
    }
}

/// Everything that decodes bytes of a loaded document (the entry points beyond the loader).
fn exercise_decoders(d: &lopdf::Document) {
    // mapped codes, codes no CMap entry covers followed by more text, odd lengths
    let mut sample_text: Vec<u8> = vec![0, 1, 0, 4, 1, 0, 1, 1, 0xFF, 0xFF, 0x41, 0xFE, 0xFD, 0xFC, 0xFB, 0x01, 0x00, 0x00, 0x01, 0x7F, 0x80, 0x90, 0xA0, 0xB0, 0x00, 0x04, 0x09];
    for (_, o) in d.objects.iter() {
        match o {
            lopdf::Object::Stream(s) => {
                let plain = s.decompressed_content();
                let _ = s.decode_content();
                if let Ok(p) = &plain {
                    let _ = lopdf::content::Content::decode(p);
                }
                if s.dict.has_type(b"ObjStm") {
                    let mut c = s.clone();
                    let _ = lopdf::ObjectStream::new(&mut c);
                }
                if s.dict.has_type(b"XRef") {
                    let _ = lopdf::xref::decode_xref_stream(s.clone());
                }
                let mut c = s.clone();
                let _ = c.decompress();
                let _ = c.compress();
            }
            lopdf::Object::Dictionary(dict) => {
                if dict.has_type(b"Font") {
                    if let Ok(enc) = dict.get_font_encoding(d) {
                        let _ = lopdf::Document::decode_text(&enc, &sample_text);
                    }
                }
                for (_, v) in dict.iter() {
                    if let lopdf::Object::String(b, _) = v {
                        let _ = lopdf::decode_text_string(v);
                        sample_text = b.clone();
                    }
                }
            }
            s @ lopdf::Object::String(..) => {
                let _ = lopdf::decode_text_string(s);
            }
            _ => {}
        }
    }
    // page-level byte consumers
    for (_, p) in d.get_pages() {
        let _ = d.get_page_content(p);
        let _ = d.get_and_decode_page_content(p);
    }
    let pages: Vec<u32> = d.get_pages().keys().cloned().collect();
    let _ = d.extract_text(&pages);
}

/// Run `f` on a thread with a 2 MiB stack (rayon's and std's default for
/// worker threads) with the simulation context installed there.
fn on_small_stack<T: Send>(ctx: &Ctx, f: impl FnOnce() -> T + Send) -> T {
    std::thread::scope(|s| {
        std::thread::Builder::new()
            .stack_size(2 << 20)
            .spawn_scoped(s, || {
                ctx.install();
                let r = f();
                Ctx::uninstall();
                r
            })
            .expect("spawn")
            .join()
            .unwrap_or_else(|p| std::panic::resume_unwind(p))
    })
}

pub fn c04_faulted(ctx: &Ctx, out: &mut RunOut) -> Result<(), Violation> {
    for k in ["fault-truncate", "fault-bit-flip", "fault-byte-burst", "fault-zero-block", "fault-stale-block", "fault-misdirected-block", "fault-duplicated-block", "fault-splice", "fault-digit-edit", "fault-ref-retarget", "fault-cipher-pad-edit", "fault-number-extreme", "fault-deferred-length-edit", "fault-encryption-key-name-damaged", "fault-encrypted-string-cut-short", "fault-structural-number-extreme", "page-tree-walk-with-hostile-count", "base-with-deferred-length-in-the-clear", "deferred-length-changed-in-place", "deferred-length-extreme-only-fault", "entry-load-mem", "entry-load-from-faulty-source", "entry-incremental-load", "base-deep-nesting", "base-encrypted", "faulted-image-loaded-ok", "faulted-image-rejected"] {
        ctx.count_n(k, 0); // registered so that a probe that never fires shows up as zero in the evidence
    }
    LENGTH_OBJECT_SPANS.with(|c| c.borrow_mut().clear());
    ENC_KEY_SPANS.with(|c| c.borrow_mut().clear());
    let (base, older, hot, what) = base_image(ctx)?;
    let enc_keys: Vec<(usize, usize)> = ENC_KEY_SPANS.with(|c| c.borrow().clone());
    let length_spans: Vec<(usize, usize)> = LENGTH_OBJECT_SPANS.with(|c| c.borrow().clone());
    if !length_spans.is_empty() {
        ctx.count("base-with-deferred-length-in-the-clear");
    }
    ctx.event("c04-base", base.len() as u64, simcore::fnv(&base));
    let n_variants = if thorough() { 12 } else { 6 };
    let mut kinds_seen: Vec<&'static str> = Vec::new();
    let mut h = simcore::fnv(&base);
    for vi in 0..n_variants {
        let mut img = base.clone();
        let n_faults = 1 + ctx.draw(F, 4, "n-faults");
        let mut kinds: Vec<&'static str> = Vec::new();
        // files that keep a stream Length inside an unfiltered object stream: a fifth of the variants is one
        // same-size corruption of such an integer into a value near the file size or near the distance
        // to the end of the file (the loader's second pass over streams with a deferred Length)
        if !length_spans.is_empty() && ctx.chance(F, 1, 5, "deferred-length-edit") {
            let (a, b) = length_spans[ctx.draw(F, length_spans.len() as u64, "deferred-length-which") as usize];
            let len = img.len() as u64;
            let base_v = [len, len, len - a as u64, a as u64, len / 2][ctx.draw(F, 5, "deferred-length-base") as usize];
            let v = base_v.saturating_sub([0, 0, 1, 16, 200][ctx.draw(F, 5, "deferred-length-minus") as usize]) + ctx.draw(F, 2, "deferred-length-plus");
            let digits = v.to_string().into_bytes();
            let digits_at = (a..b).find(|&i| img[i].is_ascii_digit()).unwrap_or(a);
            if digits.len() <= b - digits_at {
                let mut d = vec![b'0'; b - digits_at - digits.len()];
                d.extend_from_slice(&digits);
                img[digits_at..b].copy_from_slice(&d);
                ctx.count("fault-deferred-length-edit");
                kinds.push("deferred-length-edit");
            }
        }
        // every kind of file: an eighth of the variants is one number of a structural field (a length, an
        // offset, a count, a width, a predictor parameter, an object number) replaced by an extreme of the
        // integer types a reader may compute with; numbers in the last section of a file do not move anything
        // that is addressed by offset, so the rest of the file stays readable
        if kinds.is_empty() && !hot.is_empty() && ctx.chance(F, 1, 8, "structural-extreme") {
            let (a, b) = hot[ctx.draw(F, hot.len() as u64, "extreme-span") as usize];
            let from = a + ctx.draw(F, (b.max(a + 1) - a) as u64, "extreme-from") as usize;
            if let Some(q) = (from..img.len().min(from + 48)).find(|&i| img[i].is_ascii_digit()) {
                let e = (q..img.len()).find(|&i| !img[i].is_ascii_digit()).unwrap_or(img.len());
                const EXTREMES: [&str; 14] = [
                    "32768", "65536", "2147483647", "2147483648", "4294967295", "4294967296", "9007199254740993", "4611686018427387904",
                    "9223372036854775807", "9223372036854775808", "18446744073709551615", "18446744073709551616", "99999999999999999999999999", "0",
                ];
                let v = EXTREMES[ctx.draw(F, EXTREMES.len() as u64, "extreme-value") as usize].as_bytes();
                if v.len() <= e - q && ctx.chance(F, 1, 2, "extreme-in-place") {
                    let mut d = vec![b'0'; e - q - v.len()];
                    d.extend_from_slice(v);
                    img[q..e].copy_from_slice(&d);
                } else {
                    img.splice(q..e, v.iter().cloned());
                }
                ctx.count("fault-structural-number-extreme");
                kinds.push("structural-extreme");
            }
        }
        // encrypted files: a sixth of the variants cuts one string short without moving anything: the tail
        // of a hexadecimal string becomes white-space, or a literal string gets its closing parenthesis early
        // (ciphertext that is no longer a whole number of cipher blocks, or shorter than an IV)
        if kinds.is_empty() && what.starts_with("lopdf-encrypted") && ctx.chance(F, 1, 6, "enc-string-cut") {
            let starts: Vec<usize> = (0..img.len().saturating_sub(4))
                .filter(|&i| (img[i] == b'<' && img[i + 1] != b'<' && (i == 0 || img[i - 1] != b'<') && img[i + 1].is_ascii_hexdigit()) || (img[i] == b'(' && (i == 0 || img[i - 1] != b'\\')))
                .collect();
            if !starts.is_empty() {
                let a = starts[ctx.draw(F, starts.len() as u64, "enc-string-which") as usize];
                let keep = 1 + ctx.draw(F, 31, "enc-string-keep") as usize;
                if img[a] == b'<' {
                    let end = (a..img.len()).find(|&i| img[i] == b'>').unwrap_or(img.len());
                    for i in (a + 1 + 2 * keep).min(end)..end {
                        img[i] = b' ';
                    }
                } else if a + 1 + keep < img.len() {
                    img[a + 1 + keep] = b')';
                }
                ctx.count("fault-encrypted-string-cut-short");
                kinds.push("enc-string-cut");
            }
        }
        // encrypted files: a sixth of the variants is one damaged character in one key name of the
        // encryption dictionary (for the security handler that entry is then missing)
        if kinds.is_empty() && !enc_keys.is_empty() && ctx.chance(F, 1, 6, "enc-key-damage") {
            let (a, b) = enc_keys[ctx.draw(F, enc_keys.len() as u64, "enc-key-which") as usize];
            if b - a >= 2 && b <= img.len() {
                let pos = a + 1 + ctx.draw(F, (b - a - 1) as u64, "enc-key-pos") as usize;
                if img[pos].is_ascii_alphabetic() {
                    img[pos] = if img[pos] == b'x' { b'y' } else { b'x' };
                    ctx.count("fault-encryption-key-name-damaged");
                    kinds.push("enc-key-damage");
                }
            }
        }
        for _ in 0..if kinds.is_empty() { n_faults } else { 0 } {
            // encrypted images: a quarter of the faults is a byte error in the last bytes of the cipher
            // block before the final one of some stream, i.e. exactly where CBC turns it into a
            // change of the PKCS#5 padding bytes of the plaintext (pad length 0, too long, inconsistent)
            if what.starts_with("lopdf-encrypted") && ctx.chance(F, 1, 4, "cipher-pad-edit") {
                let tails: Vec<usize> = (0..img.len().saturating_sub(10)).filter(|&i| &img[i..i + 10] == b"\nendstream").collect();
                if !tails.is_empty() {
                    let at = tails[ctx.draw(F, tails.len() as u64, "pad-edit-stream") as usize];
                    if at >= 17 + 1 {
                        let pos = at - 17 - ctx.draw(F, 2, "pad-edit-back") as usize;
                        img[pos] ^= 1 + ctx.draw(F, 32, "pad-edit-xor") as u8;
                        ctx.count("fault-cipher-pad-edit");
                        kinds.push("cipher-pad-edit");
                        continue;
                    }
                }
            }
            let k = simcore::disk::apply_fault(ctx, &mut img, older.as_deref(), &hot);
            ctx.count(match k {
                "truncate" => "fault-truncate",
                "bit-flip" => "fault-bit-flip",
                "byte-burst" => "fault-byte-burst",
                "zero-block" => "fault-zero-block",
                "stale-block" => "fault-stale-block",
                "misdirected-block" => "fault-misdirected-block",
                "duplicated-block" => "fault-duplicated-block",
                "splice" => "fault-splice",
                "digit-edit" => "fault-digit-edit",
                "ref-retarget" => "fault-ref-retarget",
                "replicated-block" => "fault-replicated-block",
                "number-copy" => "fault-number-copy",
                "number-extreme" => "fault-number-extreme",
                _ => "fault-none",
            });
            kinds.push(k);
        }
        // reach probe: a deferred Length changed in place (nothing else moved)
        if img.len() == base.len() && length_spans.iter().any(|&(a, b)| img[a..b] != base[a..b]) {
            ctx.count("deferred-length-changed-in-place");
            if kinds == ["number-extreme"] {
                ctx.count("deferred-length-extreme-only-fault");
            }
        }
        dump_image(&format!("c04-variant{vi}.pdf"), &img);
        h = simcore::mix(h, simcore::fnv(&img));
        let entry = ctx.draw(F, 5, "entry-point");
        let before = crate::alloc::snapshot();
        crate::alloc::reset_peak();
        let budget_req: usize = (16 << 20) + 4096 * img.len();
        let describe = format!("{what} ({} bytes) after {:?}", img.len(), kinds);
        // ---- the call under test, on a small stack
        let loaded: Option<lopdf::Document> = match entry {
            0 | 1 => {
                ctx.count("entry-load-mem");
                guarded("Document::load_mem", || on_small_stack(ctx, || lopdf::Document::load_mem(&img)))?.ok()
            }
            2 => {
                ctx.count("entry-load-from-faulty-source");
                let mut cfg: SourceCfg = draw_benign_source(ctx);
                match ctx.draw(F, 3, "read-fault") {
                    0 => {}
                    1 => cfg.fault_at = Some((ctx.draw(F, img.len() as u64 + 1, "read-fault-at") as usize, std::io::ErrorKind::Other)),
                    _ => cfg.eof_at = Some(ctx.draw(F, img.len() as u64 + 1, "eof-at") as usize),
                }
                guarded("Document::load_from", || {
                    on_small_stack(ctx, || {
                        let mut src = SimSource::new(ctx, &img, cfg);
                        lopdf::Document::load_from(&mut src)
                    })
                })?
                .ok()
            }
            4 => {
                // the file-based loader with an object filter (the other branch of the parallel closure)
                ctx.count("entry-load-filtered");
                fn filter(id: (u32, u16), o: &mut lopdf::Object) -> Option<((u32, u16), lopdf::Object)> {
                    if id.0 % 5 == 3 && matches!(o, lopdf::Object::Stream(_)) {
                        None
                    } else {
                        Some((id, o.clone()))
                    }
                }
                let path = scratch_dir().join(format!("c04-{}.pdf", std::process::id()));
                if std::fs::write(&path, &img).is_err() {
                    continue;
                }
                let r = guarded("Document::load_filtered", || on_small_stack(ctx, || lopdf::Document::load_filtered(&path, filter)));
                let _ = std::fs::remove_file(&path);
                r?.ok()
            }
            _ => {
                ctx.count("entry-incremental-load");
                guarded("IncrementalDocument::load_from", || on_small_stack(ctx, || lopdf::IncrementalDocument::load_from(&img[..])))?.ok().map(|i| i.get_prev_documents().clone())
            }
        };
        ctx.event("c04-outcome", loaded.is_some() as u64, loaded.as_ref().map(sim::full_digest).unwrap_or(0));
        if let Some(d) = &loaded {
            ctx.count("faulted-image-loaded-ok");
            guarded("decoders on the loaded document", || on_small_stack(ctx, || exercise_decoders(d)))?;
            // the page tree with a /Count a hostile file may carry (a same-size fault cannot write that many
            // digits, so the value is put into the loaded document): the walks must neither panic nor
            // reserve memory for pages that cannot exist
            if ctx.chance(F, 1, 4, "hostile-count") {
                let mut x = d.clone();
                let nodes: Vec<(u32, u16)> = x.objects.iter().filter(|(_, o)| o.as_dict().map(|dd| dd.has_type(b"Pages")).unwrap_or(false)).map(|(id, _)| *id).collect();
                if !nodes.is_empty() {
                    let v = [1i64 << 31, 1 << 32, 1 << 40, 1 << 62, i64::MAX, -1, 5_000_000_000][ctx.draw(F, 7, "hostile-count-value") as usize];
                    for id in nodes.iter().skip(ctx.draw(F, nodes.len() as u64, "hostile-count-from") as usize) {
                        if let Ok(dd) = x.get_object_mut(*id).and_then(|o| o.as_dict_mut()) {
                            dd.set("Count", v);
                        }
                    }
                    ctx.count("page-tree-walk-with-hostile-count");
                    guarded("page-tree walks with a hostile /Count", || {
                        on_small_stack(ctx, || {
                            let pages = x.get_pages();
                            let _ = x.page_iter().count();
                            let nums: Vec<u32> = pages.keys().cloned().take(4).collect();
                            let _ = x.extract_text(&nums);
                        })
                    })?;
                }
            }
            // a damaged encrypted file the loader could not open on its own: the explicit calls must return too
            if d.is_encrypted() {
                ctx.count("decrypt-on-damaged-encrypted-image");
                for pw in ["", "owner"] {
                    let mut x = d.clone();
                    guarded("Document::decrypt on a damaged file", || on_small_stack(ctx, || x.decrypt(pw).is_ok()))?;
                }
            }
            // the C08 clause on the same image: one more schedule and the sequential build
            if entry <= 1 {
                let a = sim::full_digest(d);
                ctx.set_sched(SchedPolicy::Reverse);
                let b = guarded("load_mem (reverse schedule)", || on_small_stack(ctx, || sim::load_outcome(&img)))?;
                ctx.set_sched(SchedPolicy::Random);
                let c = guarded("load_mem(seq)", || on_small_stack(ctx, || seq::load_outcome(&img)))?;
                if b != Ok(a) || c != Ok(a) {
                    return Err(Violation::new("digest-differs-across-schedules", format!("{describe}: digests {a:016x} / {b:?} / {c:?}")));
                }
            }
        } else {
            ctx.count("faulted-image-rejected");
        }
        let after = crate::alloc::snapshot();
        if after.max_request > budget_req {
            return Err(Violation::new(
                "allocation-unrelated-to-input",
                format!("{describe}: a single allocation request of {} bytes (budget {} for a {}-byte input)", after.max_request, budget_req, img.len()),
            ));
        }
        let peak_budget = (64usize << 20) + 4096 * img.len();
        if after.peak.saturating_sub(before.live) > peak_budget {
            return Err(Violation::new("memory-unrelated-to-input", format!("{describe}: peak heap {} bytes", after.peak - before.live)));
        }
        for k in kinds {
            if !kinds_seen.contains(&k) {
                kinds_seen.push(k);
            }
        }
    }
    // raw artefacts given directly to the decoders (no file around them)
    {
        let ops = pagegen::gen_ops(ctx, 8);
        let mut c = pagegen::encode_ops(&ops, 0, 1);
        simcore::disk::apply_fault(ctx, &mut c, None, &[]);
        ctx.count("entry-content-decode");
        guarded("Content::decode", || on_small_stack(ctx, || lopdf::content::Content::decode(&c).map(|_| ())))?.ok();
        // a content stream with an inline image: the image dictionary's numbers decide how many bytes follow
        {
            let (w, hgt) = (1 + ctx.draw(W, 12, "ii-w") as usize, 1 + ctx.draw(W, 6, "ii-h") as usize);
            let (cs, ncol) = [("/G", 1usize), ("/RGB", 3), ("/CMYK", 4), ("/DeviceGray", 1)][ctx.draw(W, 4, "ii-cs") as usize];
            let bpc = [1usize, 2, 4, 8][ctx.draw(W, 4, "ii-bpc") as usize];
            let stride = (w * ncol * bpc + 7) / 8;
            let mut c = pagegen::encode_ops(&pagegen::gen_ops(ctx, 3), 0, 1);
            let head = format!("\nBI /W {w} /H {hgt} /BPC {bpc} /CS {cs} ID ");
            let at = c.len();
            c.extend_from_slice(head.as_bytes());
            c.extend((0..stride * hgt).map(|i| (i * 37 % 251) as u8));
            c.extend_from_slice(b" EI\nQ\n");
            let hot = vec![(at, at + head.len()); 4];
            for _ in 0..1 + ctx.draw(F, 2, "ii-faults") {
                simcore::disk::apply_fault(ctx, &mut c, None, &hot);
            }
            ctx.count("entry-content-decode-inline-image");
            guarded("Content::decode (inline image)", || on_small_stack(ctx, || lopdf::content::Content::decode(&c).map(|_| ())))?.ok();
        }
        // an ASCII85 stream whose groups sit at the top of the 32-bit range
        {
            let mut data: Vec<u8> = (0..4 * (1 + ctx.draw(W, 6, "a85-groups") as usize)).map(|_| if ctx.chance(W, 3, 4, "a85-ff") { 0xFF } else { ctx.draw(W, 256, "a85-byte") as u8 }).collect();
            data.truncate(data.len() - ctx.draw(W, 4, "a85-tail") as usize);
            let mut body = ascii85(&data);
            let hot = vec![(0, body.len())];
            simcore::disk::apply_fault(ctx, &mut body, None, &hot);
            ctx.count("entry-ascii85");
            let st = lopdf::Stream::new(lopdf::dictionary! { "Filter" => "ASCII85Decode" }, body);
            guarded("Stream::decompressed_content (ASCII85)", || on_small_stack(ctx, || st.decompressed_content().map(|_| ())))?.ok();
        }
        let mut cm = gen_cmap(ctx);
        let hot = cmap_hot(&cm);
        simcore::disk::apply_fault(ctx, &mut cm, None, &hot);
        if ctx.chance(F, 1, 3, "cmap-second-fault") {
            simcore::disk::apply_fault(ctx, &mut cm, None, &hot);
        }
        ctx.count("entry-cmap");
        let (cm_len, before) = (cm.len(), crate::alloc::snapshot());
        crate::alloc::reset_peak();
        let font = lopdf::dictionary! { "Type" => "Font", "Subtype" => "Type0", "Encoding" => "Identity-H", "ToUnicode" => lopdf::Object::Reference((2, 0)) };
        let mut d = lopdf::Document::with_version("1.5");
        d.objects.insert((2, 0), lopdf::Object::Stream(lopdf::Stream::new(lopdf::Dictionary::new(), cm)));
        guarded("get_font_encoding + decode_text", || {
            on_small_stack(ctx, || {
                if let Ok(enc) = font.get_font_encoding(&d) {
                    let _ = lopdf::Document::decode_text(&enc, &[0, 1, 1, 0, 1, 2, 0xFF, 0xFE, 0xFD, 0xFC, 0xFB, 0xFA, 0, 1, 0x80, 0x81, 0x82, 0x83, 0x84]);
                }
            })
        })?;
        // the memory clause for this entry point too: a few hundred bytes of CMap must not cost megabytes
        let after = crate::alloc::snapshot();
        // (generous on purpose: a fixed table of a few megabytes for two-byte codes would still be modest)
        let budget: usize = (8 << 20) + 4096 * cm_len;
        if after.max_request > budget {
            return Err(Violation::new("allocation-unrelated-to-input", format!("ToUnicode CMap of {cm_len} bytes: single allocation request of {} bytes", after.max_request)));
        }
        if after.peak.saturating_sub(before.live) > 2 * budget {
            return Err(Violation::new("memory-unrelated-to-input", format!("ToUnicode CMap of {cm_len} bytes: peak heap {} bytes", after.peak - before.live)));
        }
    }
    out.case_hash = h;
    out.nontrivial = !kinds_seen.is_empty();
    out.sample = format!("{what}, {} bytes, {} faulted variants, fault kinds {:?}", base.len(), n_variants, kinds_seen);
    Ok(())
}
