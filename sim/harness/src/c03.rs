//! C03: the on-disk invariant, evaluated on every image a sink fully accepted
//! (worlds A, C and E), by the strict third-party reader.

use crate::runner::Violation;
use pdfmodel::strict::{read_strict, StrictOpts};
use pdfmodel::{MDoc, MObj};
use simcore::Ctx;

fn last_startxref(img: &[u8]) -> Option<usize> {
    let sx = (0..img.len().saturating_sub(8)).rev().find(|&i| &img[i..i + 9] == b"startxref")?;
    let mut v = 0usize;
    let mut any = false;
    for &c in img[sx + 9..].iter().skip_while(|c| c.is_ascii_whitespace()) {
        if c.is_ascii_digit() {
            v = v * 10 + (c - b'0') as usize;
            any = true;
        } else {
            break;
        }
    }
    any.then_some(v)
}

fn class_of(err: &str) -> &'static str {
    if err.contains("xref entry") || err.contains("cross-reference entry") || err.contains("object header") {
        "strict:xref-entry-or-offset"
    } else if err.contains("Length") {
        "strict:stream-length"
    } else if err.contains("startxref") || err.contains("%%EOF") {
        "strict:startxref"
    } else if err.contains("Size") {
        "strict:size"
    } else if err.contains("xref stream") || err.contains("cross-reference stream") {
        "strict:xref-stream"
    } else if err.contains("belong to no object") {
        "strict:unaccounted-bytes"
    } else {
        "strict:rejects"
    }
}

/// `prev`: for incremental saves, the image the new one must extend.
pub fn check_image(ctx: &Ctx, img: &[u8], model: &MDoc, prev: Option<&[u8]>) -> Result<(), Violation> {
    check_image_opt(ctx, img, model, prev, false)
}

/// `foreign_base`: the first revision was not written by lopdf (header rules of C03 do not apply to it).
pub fn check_image_opt(ctx: &Ctx, img: &[u8], model: &MDoc, prev: Option<&[u8]>, foreign_base: bool) -> Result<(), Violation> {
    ctx.count("c03-images-checked");
    let opts = StrictOpts { trusted_prefix: prev.map_or(0, |p| p.len()), allow_leading_junk: false, binary_comment_optional: foreign_base };
    let sd = read_strict(img, &opts).map_err(|e| Violation::new(class_of(&e), format!("strict reader rejects the saved file: {e}")))?;
    // R6: for a foreign base, streams keep an indirect Length in the file while lopdf reports the integer
    let recovered = if foreign_base { crate::scen_b::expect_for_lopdf(&sd.doc) } else { sd.doc.clone() };
    pdfmodel::same_doc(model, &recovered, &|_, _: &MObj| false)
        .map_err(|(c, e)| Violation::new(format!("strict:{c}"), format!("strict reader recovers a different document: {e}")))?;
    if let Some(p) = prev {
        ctx.count("c03-incremental-images-checked");
        if !img.starts_with(p) {
            return Err(Violation::new("prefix-modified", "incremental save does not start with the previously loaded bytes"));
        }
        let want = last_startxref(p);
        let got = pdfmodel::dict_get(&sd.trailers[0], b"Prev").and_then(|o| if let MObj::Int(i) = o { Some(*i as usize) } else { None });
        if want.is_none() || want != got {
            return Err(Violation::new(
                "strict:prev-link",
                format!("new cross-reference section has Prev {:?}, the previous revision's startxref value is {:?}", got, want),
            ));
        }
        if sd.section_offsets.get(1).copied() != want {
            return Err(Violation::new("strict:prev-link", "Prev chain does not continue with the previous revision's section"));
        }
    }
    Ok(())
}
