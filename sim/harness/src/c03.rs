//! C03: the on-disk invariant, evaluated on every image a sink fully accepted.

use crate::runner::Violation;
use pdfmodel::MDoc;
use simcore::Ctx;

/// `prev`: for incremental saves, the image the new one must extend.
pub fn check_image(ctx: &Ctx, img: &[u8], model: &MDoc, prev: Option<&[u8]>) -> Result<(), Violation> {
    let _ = (ctx, img, model, prev);
    Ok(())
}
