use std::sync::atomic::{AtomicU8, Ordering};

pub static TIER: AtomicU8 = AtomicU8::new(0);

pub fn thorough() -> bool {
    TIER.load(Ordering::Relaxed) == 1
}
pub fn set_tier(t: &str) {
    TIER.store(if t == "thorough" { 1 } else { 0 }, Ordering::Relaxed);
}
pub fn tier_name() -> &'static str {
    if thorough() {
        "thorough"
    } else {
        "quick"
    }
}

/// Scratch directory for real-file sinks (created on demand, under the build
/// directory of the harness, never under /tmp).
pub fn scratch_dir() -> std::path::PathBuf {
    let p = std::env::var("VERIF_SCRATCH").map(std::path::PathBuf::from).unwrap_or_else(|_| {
        let exe = std::env::current_exe().unwrap_or_else(|_| "/verif/sim/target/release/verif-sim".into());
        exe.parent().unwrap_or(std::path::Path::new("/verif/sim/target")).join("scratch")
    });
    let _ = std::fs::create_dir_all(&p);
    p
}

/// Debugging aid: with VERIF_DUMP_DIR set (replays only), scenarios write the byte images they handle.
pub fn dump_image(name: &str, bytes: &[u8]) {
    if let Ok(d) = std::env::var("VERIF_DUMP_DIR") {
        let _ = std::fs::create_dir_all(&d);
        let _ = std::fs::write(std::path::Path::new(&d).join(name), bytes);
    }
}
