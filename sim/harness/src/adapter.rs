// Instantiated once per lopdf variant (`lopdf` is aliased by the including module).
// Conversions between the harness-owned model and lopdf's types, and the thin
// load/save wrappers. Variants are compared through the model, never through
// lopdf types.

use pdfmodel::{MDict, MDoc, MObj};
use std::collections::BTreeMap;

pub fn to_obj(o: &MObj) -> lopdf::Object {
    use lopdf::Object as O;
    match o {
        MObj::Null => O::Null,
        MObj::Bool(b) => O::Boolean(*b),
        MObj::Int(i) => O::Integer(*i),
        MObj::Real(r) => O::Real(*r),
        MObj::Name(n) => O::Name(n.clone()),
        MObj::Str(s, hex) => O::String(
            s.clone(),
            if *hex { lopdf::StringFormat::Hexadecimal } else { lopdf::StringFormat::Literal },
        ),
        MObj::Array(a) => O::Array(a.iter().map(to_obj).collect()),
        MObj::Dict(d) => O::Dictionary(to_dict(d)),
        MObj::Stream(d, body) => {
            // Built the way a user builds a stream: `Stream::new` states Length itself.
            let mut dict = to_dict(d);
            dict.remove(b"Length");
            let mut s = lopdf::Stream::new(dict, body.clone());
            // keep the model's key order (Length where the model has it)
            let mut ordered = lopdf::Dictionary::new();
            for (k, _) in d {
                if let Ok(v) = s.dict.get(k) {
                    ordered.set(k.clone(), v.clone());
                }
            }
            for (k, v) in s.dict.iter() {
                if !ordered.has(k) {
                    ordered.set(k.clone(), v.clone());
                }
            }
            s.dict = ordered;
            O::Stream(s)
        }
        MObj::Ref(n, g) => O::Reference((*n, *g)),
    }
}

pub fn to_dict(d: &MDict) -> lopdf::Dictionary {
    let mut out = lopdf::Dictionary::new();
    for (k, v) in d {
        out.set(k.clone(), to_obj(v));
    }
    out
}

pub fn from_obj(o: &lopdf::Object) -> MObj {
    use lopdf::Object as O;
    match o {
        O::Null => MObj::Null,
        O::Boolean(b) => MObj::Bool(*b),
        O::Integer(i) => MObj::Int(*i),
        O::Real(r) => MObj::Real(*r),
        O::Name(n) => MObj::Name(n.clone()),
        O::String(s, f) => MObj::Str(s.clone(), matches!(f, lopdf::StringFormat::Hexadecimal)),
        O::Array(a) => MObj::Array(a.iter().map(from_obj).collect()),
        O::Dictionary(d) => MObj::Dict(from_dict(d)),
        O::Stream(s) => MObj::Stream(from_dict(&s.dict), s.content.clone()),
        O::Reference(id) => MObj::Ref(id.0, id.1),
    }
}

pub fn from_dict(d: &lopdf::Dictionary) -> MDict {
    d.iter().map(|(k, v)| (k.clone(), from_obj(v))).collect()
}

pub fn to_doc(m: &MDoc) -> lopdf::Document {
    let mut d = lopdf::Document::with_version(m.version.clone());
    d.binary_mark = m.binary_mark.clone();
    for (id, o) in &m.objects {
        d.objects.insert(*id, to_obj(o));
    }
    d.trailer = to_dict(&m.trailer);
    d.max_id = m.max_id;
    d.reference_table.cross_reference_type = if m.xref_stream {
        lopdf::xref::XrefType::CrossReferenceStream
    } else {
        lopdf::xref::XrefType::CrossReferenceTable
    };
    d
}

pub fn from_doc(d: &lopdf::Document) -> MDoc {
    let mut objects = BTreeMap::new();
    for (id, o) in &d.objects {
        objects.insert(*id, from_obj(o));
    }
    MDoc {
        version: d.version.clone(),
        binary_mark: d.binary_mark.clone(),
        objects,
        trailer: from_dict(&d.trailer),
        max_id: d.max_id,
        xref_stream: matches!(d.reference_table.cross_reference_type, lopdf::xref::XrefType::CrossReferenceStream),
    }
}

/// Full-state digest (rule R5): everything a caller can observe of a loaded
/// `Document`, order-sensitive.
pub fn full_digest(d: &lopdf::Document) -> u64 {
    let mut h = simcore::mix_str(7, &d.version);
    h = simcore::mix(h, simcore::fnv(&d.binary_mark));
    h = simcore::mix(h, d.max_id as u64);
    h = simcore::mix(h, d.xref_start as u64);
    h = simcore::mix(h, d.objects.len() as u64);
    for (id, o) in &d.objects {
        h = simcore::mix(simcore::mix(h, id.0 as u64), id.1 as u64);
        pdfmodel::digest_obj(&from_obj(o), &mut h);
        if let lopdf::Object::Stream(s) = o {
            h = simcore::mix(h, s.allows_compression as u64);
            h = simcore::mix(h, s.start_position.map(|p| p as u64 + 1).unwrap_or(0));
        }
    }
    pdfmodel::digest_obj(&MObj::Dict(from_dict(&d.trailer)), &mut h);
    h = simcore::mix(h, d.reference_table.size as u64);
    h = simcore::mix(h, matches!(d.reference_table.cross_reference_type, lopdf::xref::XrefType::CrossReferenceStream) as u64);
    for (k, e) in &d.reference_table.entries {
        use lopdf::xref::XrefEntry as E;
        let (a, b, c) = match e {
            E::Free => (0u64, 0u64, 0u64),
            E::UnusableFree => (1, 0, 0),
            E::Normal { offset, generation } => (2, *offset as u64, *generation as u64),
            E::Compressed { container, index } => (3, *container as u64, *index as u64),
        };
        h = simcore::mix(simcore::mix(simcore::mix(simcore::mix(h, *k as u64), a), b), c);
    }
    h = simcore::mix(h, d.encryption_state.is_some() as u64);
    h
}

/// Outcome of a load, comparable across variants: digest or error text.
pub fn load_outcome(bytes: &[u8]) -> Result<u64, String> {
    match lopdf::Document::load_mem(bytes) {
        Ok(d) => Ok(full_digest(&d)),
        Err(e) => Err(format!("{:?}", e)),
    }
}

pub fn load_mem(bytes: &[u8]) -> Result<lopdf::Document, String> {
    lopdf::Document::load_mem(bytes).map_err(|e| format!("{:?}", e))
}

pub fn load_from<R: std::io::Read>(r: R) -> Result<lopdf::Document, String> {
    lopdf::Document::load_from(r).map_err(|e| format!("{:?}", e))
}
