use crate::driver::BatchAgg;
use crate::props::Prop;
use serde_json::{json, Value};
use std::collections::BTreeMap;

pub fn write(prop: &Prop, tier: &str, seed: u64, aggs: &[(usize, BatchAgg)], violations: usize, known_lines: &[String], wall_s: f64) {
    let mut evaluations = 0u64;
    let mut distinct = 0u64;
    let mut events = 0u64;
    let mut draws = 0u64;
    let mut samples: Vec<Value> = Vec::new();
    let mut batches = Vec::new();
    let mut counters_all: BTreeMap<String, u64> = BTreeMap::new();
    for (bi, a) in aggs {
        let b = &prop.batches[*bi];
        evaluations += a.runs;
        distinct += a.distinct.len() as u64;
        events += a.events;
        draws += a.draws;
        for s in &a.samples {
            if samples.len() < 6 {
                samples.push(json!({"batch": b.name, "case": s}));
            }
        }
        for (k, v) in &a.counters {
            *counters_all.entry(k.clone()).or_insert(0) += v;
        }
        let zero_probes: Vec<&String> = a.counters.iter().filter(|(_, v)| **v == 0).map(|(k, _)| k).collect();
        batches.push(json!({
            "batch": b.name,
            "simulator_varies": b.varies,
            "runs": a.runs,
            "wall_s": (a.wall_s * 100.0).round() / 100.0,
            "runs_per_hour": (a.runs as f64 / a.wall_s.max(1e-9) * 3600.0).round(),
            "logical_events": a.events,
            "choices_drawn": a.draws,
            "distinct_nontrivial_cases": a.distinct.len(),
            "event_log_hash_sum": format!("{:016x}", a.hash_acc),
            "counters_fired": a.counters,
            "known_finding_hits_skipped": a.known,
            "probes_at_zero": zero_probes,
            "violations": a.violations.len(),
        }));
    }
    let ev = json!({
        "property_id": prop.id,
        "tier": tier,
        "seed": seed,
        "level": prop.level,
        "coverage": {
            "evaluations": evaluations,
            "distinct_nontrivial": distinct,
            "rule": prop.rule,
            "samples": samples,
            "exhaustive": false,
            "simulated_time": format!("{} logical events (scheduler decisions + I/O faults + RNG draws + oracle checkpoints); the library has no clocks or timers, so simulated time has no seconds", events),
            "choices_drawn": draws,
            "fault_and_probe_counters": counters_all,
            "batches": batches,
            "components": {
                "real": ["all of /repo/src (lopdf, built from the working tree via shadow manifests, release, overflow-checks on)", "nom", "flate2", "weezl", "aes/cbc/ecb", "md-5", "sha2", "indexmap", "std::io::Write::write_all / Read::read_to_end / BufWriter"],
                "stub": ["rayon (simulator-owned scheduler shim, Mode P: completion order drawn per parallel section)", "rand (simulator-owned RNG shim)", "sink / source / stored image (SimSink, SimSource, disk faults)", "third-party consumer (strict reader) and producer (reference writer) where used"],
            },
            "known_findings_reported": known_lines,
        },
        "assumptions": prop.assumptions,
        "wall_s": (wall_s * 100.0).round() / 100.0,
        "violations": violations,
    });
    let dir = crate::driver::verif_root().join("evidence");
    let _ = std::fs::create_dir_all(&dir);
    let p = dir.join(format!("{}.json", prop.id));
    std::fs::write(&p, serde_json::to_vec_pretty(&ev).unwrap()).expect("write evidence");
}
