//! World A — persist / recover: C19 (fault enumeration on the sink), C01
//! (save → load round trips), with the C03 strict-reader invariant evaluated on
//! every image a sink fully accepted.

use crate::common::*;
use crate::runner::{guarded, RunOut, Violation};
use crate::variants::{seq, sim};
use pdfmodel::gen::{self, GenCfg};
use pdfmodel::{MDoc, MObj};
use sim::lopdf;
use simcore::io::{draw_benign_sink, draw_benign_source, HARD_KINDS};
use simcore::{ChunkPolicy, Ctx, FaultKind, SimSink, SimSource, SinkCfg, Stream::F, Stream::W};
use std::io::Write;

/// Structural boundaries of a lopdf-written image, found by scanning (the
/// harness does not trust lopdf for the layout).
pub struct Layout {
    pub marks: Vec<(usize, &'static str)>,
    pub xref_start: usize,
    pub first_obj: usize,
}

pub fn scan_layout(img: &[u8]) -> Layout {
    let pats: [(&[u8], &'static str); 8] = [
        (b" obj\n", "obj"),
        (b"stream\n", "stream"),
        (b"\nendstream", "endstream"),
        (b"\nendobj", "endobj"),
        (b"xref\n", "xref"),
        (b"trailer\n", "trailer"),
        (b"startxref\n", "startxref"),
        (b"%%EOF", "eof"),
    ];
    let mut marks = Vec::new();
    for (p, name) in pats {
        let mut i = 0;
        while i + p.len() <= img.len() {
            if &img[i..i + p.len()] == p {
                marks.push((i, name));
                marks.push((i + p.len(), name));
            }
            i += 1;
        }
    }
    marks.sort();
    let sx = find_last(img, b"startxref\n").unwrap_or(img.len());
    let mut xref_start = 0usize;
    for &c in img[(sx + 10).min(img.len())..].iter() {
        if c.is_ascii_digit() {
            xref_start = xref_start * 10 + (c - b'0') as usize;
        } else {
            break;
        }
    }
    let first_obj = marks.iter().find(|m| m.1 == "obj").map(|m| m.0).unwrap_or(0);
    Layout { marks, xref_start, first_obj }
}

fn find_last(h: &[u8], n: &[u8]) -> Option<usize> {
    (0..h.len().saturating_sub(n.len() - 1)).rev().find(|&i| &h[i..i + n.len()] == n)
}

fn region(l: &Layout, img: &[u8], off: usize) -> &'static str {
    let sx = find_last(img, b"startxref\n").unwrap_or(usize::MAX);
    if off >= sx {
        return "fault-in-startxref";
    }
    if off < l.first_obj.min(l.xref_start) {
        return "fault-in-header";
    }
    if off >= l.xref_start {
        if let Some(t) = find_last(img, b"trailer\n") {
            if off >= t && t >= l.xref_start {
                return "fault-in-trailer";
            }
        }
        return "fault-in-xref";
    }
    // inside a stream body?
    let mut last = "";
    for &(p, name) in &l.marks {
        if p > off {
            break;
        }
        last = name;
    }
    if last == "stream" {
        "fault-in-stream-body"
    } else {
        "fault-in-object"
    }
}

fn small_cfg(ctx: &Ctx) -> GenCfg {
    let mut cfg = gen::draw_cfg(ctx);
    // sweeps are quadratic in the image size: keep most documents small, some large
    if cfg.n_objects > 40 {
        cfg.n_objects = 20 + cfg.n_objects % 20;
    }
    if !ctx.chance(W, 1, 8, "c19-large") {
        cfg.n_objects = cfg.n_objects.min(12);
        cfg.max_len = cfg.max_len.min(64);
    }
    if cfg.max_depth > 20 {
        cfg.max_depth = 20;
    }
    cfg
}

enum Target {
    Plain(lopdf::Document),
    Incr(lopdf::IncrementalDocument),
}
impl Target {
    fn save_to<Wr: Write>(&mut self, w: &mut Wr) -> std::io::Result<()> {
        match self {
            Target::Plain(d) => d.save_to(w),
            Target::Incr(d) => d.save_to(w),
        }
    }
    fn clone_t(&self) -> Target {
        match self {
            Target::Plain(d) => Target::Plain(d.clone()),
            Target::Incr(d) => Target::Incr(d.clone()),
        }
    }
}

/// Build the document under test (plain or incremental) and the model of what
/// a complete save must load back to. Returns also the bytes an incremental
/// save must start with.
fn build_target(ctx: &Ctx, cfg: GenCfg) -> Result<(Target, MDoc, Vec<u8>), Violation> {
    let mut g = gen::Gen::new(ctx, cfg);
    let m = g.gen_doc();
    let d0 = sim::to_doc(&m);
    if !ctx.chance(W, 1, 3, "incremental") {
        return Ok((Target::Plain(d0), m, Vec::new()));
    }
    // incremental: persist the base on a healthy sink, load it back as an
    // IncrementalDocument, apply a few edits to the new revision
    let mut base = Vec::new();
    let mut d = d0;
    guarded("Document::save_to(Vec)", || d.save_to(&mut base))?
        .map_err(|e| Violation::new("healthy-save-failed", format!("base save: {e}")))?;
    let mut inc = guarded("IncrementalDocument::load_from", || lopdf::IncrementalDocument::load_from(&base[..]))?
        .map_err(|e| Violation::new("load-failed", format!("IncrementalDocument::load_from of a saved file: {e:?}")))?;
    let mut model = m.clone();
    let ids: Vec<(u32, u16)> = m.objects.keys().cloned().collect();
    let n_edits = 1 + ctx.draw(W, 4, "inc-edits") as usize;
    for _ in 0..n_edits {
        g.cfg.max_depth = g.cfg.max_depth.min(3);
        let o = {
            let mut o = g.gen_obj(0, true);
            if matches!(o, MObj::Null) {
                o = MObj::Int(7);
            }
            o
        };
        if ctx.chance(W, 1, 2, "inc-replace") && !ids.is_empty() {
            let id = ids[ctx.draw(W, ids.len() as u64, "inc-id") as usize];
            inc.new_document.set_object(id, sim::to_obj(&o));
            model.objects.insert(id, o);
        } else {
            let id = inc.new_document.add_object(sim::to_obj(&o));
            if model.objects.contains_key(&id) {
                return Err(Violation::new(
                    "new-id-collides",
                    format!("IncrementalDocument new_document.add_object returned existing id {:?}", id),
                ));
            }
            model.objects.insert(id, o);
        }
    }
    Ok((Target::Incr(inc), model, base))
}

fn check_reload(ctx: &Ctx, what: &str, bytes: &[u8], model: &MDoc, max_xref_objs: usize) -> Result<(), Violation> {
    let d = guarded("Document::load_mem", || sim::load_mem(bytes))?
        .map_err(|e| Violation::new("load-failed", format!("{what}: load of a fully accepted image failed: {e}")))?;
    let got = sim::from_doc(&d);
    let n_x = std::cell::Cell::new(0usize);
    let extra = |_id: (u32, u16), o: &MObj| {
        if pdfmodel::is_xref_stream_obj(o) {
            n_x.set(n_x.get() + 1);
            true
        } else {
            false
        }
    };
    pdfmodel::same_doc(model, &got, &extra).map_err(|(c, e)| Violation::new(c, format!("{what}: {e}")))?;
    if n_x.get() > max_xref_objs {
        return Err(Violation::new(
            "unexpected-object",
            format!("{what}: {} cross-reference stream objects in the loaded document, at most {} revisions wrote one", n_x.get(), max_xref_objs),
        ));
    }
    let _ = ctx;
    Ok(())
}

/// C19: for one document, the bytes written do not depend on chunking/EINTR;
/// a hard fault at any offset gives Err + prefix; the same document then saves
/// fine to a healthy sink.
pub fn c19_sweep(ctx: &Ctx, out: &mut RunOut) -> Result<(), Violation> {
    for k in ["fault-in-header", "fault-in-object", "fault-in-stream-body", "fault-in-xref", "fault-in-trailer", "fault-in-startxref", "fault-in-incremental-prefix", "eintr-right-before-hard-fault", "fault-kind-zero-write", "fault-kind-hard-error", "retry-after-fault", "full-offset-sweeps"] {
        ctx.count_n(k, 0); // registered so that a probe that never fires shows up as zero in the evidence
    }
    let cfg = small_cfg(ctx);
    let (target, model, base) = build_target(ctx, cfg)?;
    let incr = matches!(target, Target::Incr(_));
    let revs = if incr { 2 } else { 1 };

    // reference output on a healthy in-memory sink
    let mut reference = Vec::new();
    {
        let mut t = target.clone_t();
        guarded("save_to(Vec)", || t.save_to(&mut reference))?
            .map_err(|e| Violation::new("healthy-save-failed", format!("save_to(Vec) failed: {e}")))?;
    }
    if incr && !reference.starts_with(&base) {
        return Err(Violation::new("prefix-modified", "incremental save does not start with the previously loaded bytes"));
    }
    ctx.event("c19-ref", reference.len() as u64, simcore::fnv(&reference));
    check_reload(ctx, "reference image", &reference, &model, revs)?;
    crate::c03::check_image(ctx, &reference, &model, if incr { Some(&base) } else { None })?;

    // (a) chunking / EINTR must be invisible
    let n_benign = if thorough() { 6 } else { 3 };
    for i in 0..n_benign {
        let mut cfg = draw_benign_sink(ctx);
        if i == 0 {
            cfg.chunk = ChunkPolicy::One;
        }
        if i == 1 {
            cfg.eintr_per_256 = 64;
        }
        let mut sink = SimSink::new(ctx, cfg.clone());
        let mut t = target.clone_t();
        let r = guarded("save_to(chunking sink)", || t.save_to(&mut sink))?;
        ctx.count_n("eintr-fired", sink.eintr_fired);
        ctx.count_n("short-writes", sink.short_writes);
        if let Err(e) = r {
            return Err(Violation::new("err-without-hard-fault", format!("save_to failed on a healthy chunking sink ({cfg:?}): {e}")));
        }
        if sink.accepted != reference {
            let at = sink.accepted.iter().zip(&reference).position(|(a, b)| a != b).unwrap_or(sink.accepted.len().min(reference.len()));
            return Err(Violation::new(
                "bytes-depend-on-chunking",
                format!("output under {cfg:?} differs from the whole-buffer output at byte {at} (lengths {} vs {})", sink.accepted.len(), reference.len()),
            ));
        }
    }

    // (b) hard faults
    let layout = scan_layout(&reference);
    let len = reference.len();
    let mut offsets: Vec<usize> = Vec::new();
    let full_sweep = thorough() && len <= 6000;
    if full_sweep {
        offsets.extend(0..len);
        ctx.count("full-offset-sweeps");
    } else {
        for &(p, _) in &layout.marks {
            for q in [p.saturating_sub(1), p, p + 1] {
                if q < len {
                    offsets.push(q);
                }
            }
        }
        offsets.push(0);
        if incr {
            for q in [base.len().saturating_sub(1), base.len(), base.len() + 1] {
                if q < len {
                    offsets.push(q);
                }
            }
        }
        let extra = if thorough() { 3000 } else { 32 };
        for _ in 0..extra {
            offsets.push(ctx.draw(F, len as u64, "fault-offset") as usize);
        }
        offsets.sort();
        offsets.dedup();
        if !thorough() && offsets.len() > 400 {
            // keep the quick tier bounded: a drawn subset of the boundary offsets
            let keep = 400;
            let mut sel = Vec::with_capacity(keep);
            for _ in 0..keep {
                sel.push(offsets[ctx.draw(F, offsets.len() as u64, "fault-offset-pick") as usize]);
            }
            sel.sort();
            sel.dedup();
            offsets = sel;
        }
    }
    // (c) is checked after a sample of the failed saves: 4 per document (quick), every 8th armed offset (thorough)
    let retry_every = if thorough() { 8 } else { (offsets.len() / 4).max(1) };
    let mut fired = 0u64;
    for (i, &off) in offsets.iter().enumerate() {
        let kinds: Vec<FaultKind> = if thorough() {
            vec![FaultKind::Hard(HARD_KINDS[ctx.draw(F, HARD_KINDS.len() as u64, "fault-kind") as usize]), FaultKind::ZeroWrite]
        } else if ctx.chance(F, 1, 3, "zero-write") {
            vec![FaultKind::ZeroWrite]
        } else {
            vec![FaultKind::Hard(HARD_KINDS[ctx.draw(F, HARD_KINDS.len() as u64, "fault-kind") as usize])]
        };
        for kind in kinds {
            let mut cfg = if ctx.chance(F, 1, 2, "fault-with-chunking") { draw_benign_sink(ctx) } else { SinkCfg::healthy() };
            cfg.fault_at = Some((off, kind));
            // a third of the failures are a single refused call after which the sink works again
            cfg.recovers = ctx.chance(F, 1, 3, "fault-recovers");
            let mut sink = SimSink::new(ctx, cfg.clone());
            let mut t = target.clone_t();
            let r = guarded("save_to(failing sink)", || t.save_to(&mut sink))?;
            if cfg.recovers {
                ctx.count("fault-single-refused-call");
            }
            if !sink.fault_fired {
                return Err(Violation::new(
                    "harness-fault-not-reached",
                    format!("armed offset {off} < len {len} but the sink never saw a write there; accepted {}", sink.accepted.len()),
                ));
            }
            fired += 1;
            ctx.count(region(&layout, &reference, off));
            ctx.count(match kind {
                FaultKind::ZeroWrite => "fault-kind-zero-write",
                FaultKind::Hard(_) => "fault-kind-hard-error",
            });
            if sink.eintr_before_fault {
                ctx.count("eintr-right-before-hard-fault");
            }
            if incr && off < base.len() {
                ctx.count("fault-in-incremental-prefix");
            }
            if r.is_ok() {
                return Err(Violation::new(
                    "ok-after-hard-fault",
                    format!("save_to returned Ok although the sink failed ({kind:?}) at byte {off} of {len} ({})", region(&layout, &reference, off)),
                ));
            }
            if sink.accepted.len() > len || sink.accepted[..] != reference[..sink.accepted.len()] {
                return Err(Violation::new(
                    "delivered-not-a-prefix",
                    format!("bytes delivered to a sink that refused a write at {off} are not a prefix of the complete output ({} bytes delivered{})", sink.accepted.len(), if cfg.recovers { ", sink accepted later writes" } else { "" }),
                ));
            }
            // (c) the same (already mutated) document on a healthy sink
            if i % retry_every == 0 {
                let mut again = Vec::new();
                guarded("save_to(Vec) after failed save", || t.save_to(&mut again))?.map_err(|e| {
                    Violation::new("healthy-save-failed", format!("save after a failed save (fault at {off}) failed: {e}"))
                })?;
                ctx.count("retry-after-fault");
                check_reload(ctx, "save after failed save", &again, &model, revs)?;
                crate::c03::check_image(ctx, &again, &model, if incr { Some(&base) } else { None })?;
            }
        }
    }
    ctx.count_n("armed-saves", fired);
    out.case_hash = simcore::mix(simcore::fnv(&reference), incr as u64);
    out.nontrivial = fired > 0 && !model.objects.is_empty();
    out.sample = format!(
        "{} doc, {} objects, {} bytes, xref {}, {} fault offsets{}",
        if incr { "incremental" } else { "plain" },
        model.objects.len(),
        len,
        if model.xref_stream { "stream" } else { "table" },
        offsets.len(),
        if full_sweep { " (every offset)" } else { "" }
    );
    Ok(())
}

/// C19 on the real file sink: `save(path)` must report kernel-level failures.
pub fn c19_file(ctx: &Ctx, out: &mut RunOut) -> Result<(), Violation> {
    for k in ["enospc-mid-save", "enospc-in-final-flush", "create-fails-enoent", "create-fails-eisdir"] {
        ctx.count_n(k, 0); // registered so that a probe that never fires shows up as zero in the evidence
    }
    let mut cfg = gen::draw_cfg(ctx);
    // below and above BufWriter's 8 KiB buffer, so the error surfaces once in
    // into_inner() and once in the middle of save_internal
    let big = ctx.chance(W, 1, 2, "big-file");
    if big {
        cfg.n_objects = cfg.n_objects.max(40);
        cfg.max_len = 600;
    } else {
        cfg.n_objects = cfg.n_objects.min(6);
        cfg.max_len = cfg.max_len.min(16);
        cfg.max_depth = cfg.max_depth.min(3);
    }
    let (target, model, base) = build_target(ctx, cfg)?;
    let incr = matches!(target, Target::Incr(_));
    let mut reference = Vec::new();
    {
        let mut t = target.clone_t();
        guarded("save_to(Vec)", || t.save_to(&mut reference))?
            .map_err(|e| Violation::new("healthy-save-failed", format!("save_to(Vec) failed: {e}")))?;
    }
    let save_path = |t: &mut Target, p: &std::path::Path| -> std::io::Result<()> {
        match t {
            Target::Plain(d) => d.save(p).map(|_| ()),
            Target::Incr(d) => d.save(p).map(|_| ()),
        }
    };
    let dir = scratch_dir();
    let cases: [(&str, std::path::PathBuf); 3] = [
        ("dev-full", "/dev/full".into()),
        ("missing-parent", dir.join("no-such-dir").join("x.pdf")),
        ("is-a-directory", dir.clone()),
    ];
    for (name, p) in cases {
        if name == "dev-full" && !std::path::Path::new("/dev/full").exists() {
            continue;
        }
        let mut t = target.clone_t();
        let r = guarded("save(path)", || save_path(&mut t, &p))?;
        ctx.count(match name {
            "dev-full" => {
                if reference.len() > 8192 {
                    "enospc-mid-save"
                } else {
                    "enospc-in-final-flush"
                }
            }
            "missing-parent" => "create-fails-enoent",
            _ => "create-fails-eisdir",
        });
        if r.is_ok() {
            return Err(Violation::new(
                "ok-after-hard-fault",
                format!("save({}) returned Ok for a {}-byte document ({name})", p.display(), reference.len()),
            ));
        }
        // the document must still be saveable
        let mut again = Vec::new();
        guarded("save_to(Vec) after failed save", || t.save_to(&mut again))?
            .map_err(|e| Violation::new("healthy-save-failed", format!("save after failed save({name}) failed: {e}")))?;
        check_reload(ctx, "save after failed save(path)", &again, &model, if incr { 2 } else { 1 })?;
    }
    // a real file that the kernel refuses to grow beyond a drawn size (RLIMIT_FSIZE): the write that
    // crosses the limit is cut short and the next one fails with EFBIG — a hard sink failure at an
    // arbitrary byte offset of the real file sink, BufWriter included
    if !reference.is_empty() {
        let limit = ctx.draw(F, reference.len() as u64, "fsize-limit") as usize;
        let p = dir.join(format!("limited-{}.pdf", std::process::id()));
        let mut t = target.clone_t();
        let r = with_fsize_limit(limit as u64, || guarded("save(path) under RLIMIT_FSIZE", || save_path(&mut t, &p)))?;
        ctx.count(if reference.len() - limit <= 8192 { "efbig-in-final-buffer" } else { "efbig-mid-file" });
        let on_disk = std::fs::read(&p).unwrap_or_default();
        let _ = std::fs::remove_file(&p);
        if r.is_ok() {
            return Err(Violation::new(
                "ok-after-hard-fault",
                format!("save(path) returned Ok although the file could not grow beyond {limit} of {} bytes (EFBIG)", reference.len()),
            ));
        }
        if on_disk.len() > limit || on_disk[..] != reference[..on_disk.len()] {
            return Err(Violation::new("delivered-not-a-prefix", format!("file content after EFBIG at {limit} is not a prefix of the complete output")));
        }
        let mut again = Vec::new();
        guarded("save_to(Vec) after failed save", || t.save_to(&mut again))?
            .map_err(|e| Violation::new("healthy-save-failed", format!("save after save(path) hit EFBIG failed: {e}")))?;
        check_reload(ctx, "save after EFBIG", &again, &model, if incr { 2 } else { 1 })?;
    }
    // healthy file: same bytes as the in-memory reference
    let p = dir.join(format!("ok-{}.pdf", std::process::id()));
    let mut t = target.clone_t();
    guarded("save(path)", || save_path(&mut t, &p))?
        .map_err(|e| Violation::new("healthy-save-failed", format!("save to a healthy file failed: {e}")))?;
    let on_disk = std::fs::read(&p).map_err(|e| Violation::new("harness-io", e.to_string()))?;
    let _ = std::fs::remove_file(&p);
    if on_disk != reference {
        return Err(Violation::new("bytes-depend-on-chunking", "save(path) and save_to(Vec) produced different bytes"));
    }
    let _ = base;
    out.case_hash = simcore::fnv(&reference);
    out.nontrivial = true;
    out.sample = format!("file sink: {} bytes, {}", reference.len(), if incr { "incremental" } else { "plain" });
    Ok(())
}

/// C01: save → load returns the same document, for both xref formats, under
/// chunked/interrupted I/O, under every loader schedule, repeatedly.
pub fn c01_roundtrip(ctx: &Ctx, out: &mut RunOut) -> Result<(), Violation> {
    let (mut m, _cfg) = gen::gen_doc(ctx);
    let cycles = 1 + ctx.draw(W, 3, "cycles") as usize;
    let mut d = sim::to_doc(&m);
    // a quarter of the cases: the in-memory document comes from loading a file of a foreign producer
    // (object streams, cross-reference streams, any syntax) instead of being built through the API
    if ctx.chance(W, 1, 4, "start-from-foreign-file") {
        use pdfmodel::refwriter::{self, Revision};
        let revs = vec![Revision { objects: m.objects.clone(), trailer: pdfmodel::trailer_payload(&m.trailer) }];
        let mut opts = refwriter::draw_opts(ctx, 1, &m.version, &m.binary_mark);
        opts.raw_cr_eol = false;
        let wr = refwriter::write_history(ctx, &revs, &opts);
        d = guarded("load_mem", || sim::load_mem(&wr.bytes))?
            .map_err(|e| Violation::new("load-failed", format!("load of a reference-writer file: {e}")))?;
        // what that file defines (C02's business) is the document from here on: integer objects
        // introduced for indirect lengths belong to it, structural objects are not re-saved
        m = crate::scen_b::expect_for_lopdf(&wr.expect[0]);
        m.xref_stream = matches!(d.reference_table.cross_reference_type, lopdf::xref::XrefType::CrossReferenceStream);
        ctx.count("start-from-foreign-file");
    }
    let mut h = 0u64;
    for c in 0..cycles {
        if c > 0 && ctx.chance(W, 1, 2, "flip-xref") {
            d.reference_table.cross_reference_type = match d.reference_table.cross_reference_type {
                lopdf::xref::XrefType::CrossReferenceStream => lopdf::xref::XrefType::CrossReferenceTable,
                lopdf::xref::XrefType::CrossReferenceTable => lopdf::xref::XrefType::CrossReferenceStream,
            };
        }
        let is_stream = matches!(d.reference_table.cross_reference_type, lopdf::xref::XrefType::CrossReferenceStream);
        ctx.count(if is_stream { "cycle-xref-stream" } else { "cycle-xref-table" });
        let scfg = draw_benign_sink(ctx);
        let mut sink = SimSink::new(ctx, scfg);
        guarded("save_to", || d.save_to(&mut sink))?
            .map_err(|e| Violation::new("healthy-save-failed", format!("cycle {c}: save_to failed: {e}")))?;
        ctx.count_n("eintr-fired", sink.eintr_fired);
        ctx.count_n("short-writes", sink.short_writes);
        let bytes = sink.accepted;
        ctx.event("c01-image", bytes.len() as u64, simcore::fnv(&bytes));
        h = simcore::mix(h, simcore::fnv(&bytes));
        let mut expect = m.clone();
        expect.xref_stream = is_stream;
        crate::c03::check_image(ctx, &bytes, &expect, None)?;
        // load through a chunking source under a drawn schedule
        let rcfg = draw_benign_source(ctx);
        let mut src = SimSource::new(ctx, &bytes, rcfg);
        let d2 = guarded("load_from", || sim::load_from(&mut src))?
            .map_err(|e| Violation::new("load-failed", format!("cycle {c}: load of the saved bytes failed: {e}")))?;
        ctx.count_n("read-eintr-fired", src.eintr_fired);
        ctx.event("c01-loaded", c as u64, sim::full_digest(&d2));
        let got = sim::from_doc(&d2);
        let n_x = std::cell::Cell::new(0usize);
        let extra = |_id: (u32, u16), o: &MObj| {
            if pdfmodel::is_xref_stream_obj(o) {
                n_x.set(n_x.get() + 1);
                true
            } else {
                false
            }
        };
        pdfmodel::same_doc(&m, &got, &extra).map_err(|(cl, e)| Violation::new(cl, format!("cycle {c} ({}): {e}", if is_stream { "xref stream" } else { "xref table" })))?;
        if n_x.get() > is_stream as usize {
            return Err(Violation::new("unexpected-object", format!("cycle {c}: {} XRef objects loaded", n_x.get())));
        }
        // (the binary mark is not part of C01's statement; its survival is only counted)
        if got.binary_mark == m.binary_mark {
            ctx.count("binary-mark-preserved");
        }
        // sequential reader (no-default-features configuration)
        let d3 = guarded("load_mem(seq)", || seq::load_mem(&bytes))?
            .map_err(|e| Violation::new("load-failed", format!("cycle {c}: sequential build failed to load: {e}")))?;
        let got3 = seq::from_doc(&d3);
        pdfmodel::same_doc(&m, &got3, &|_, o| pdfmodel::is_xref_stream_obj(o))
            .map_err(|(cl, e)| Violation::new(cl, format!("cycle {c} (sequential reader): {e}")))?;
        d = d2;
        // the loaded document is an in-memory document like any other: it may be edited before
        // the next cycle (objects added through the public API, one replaced)
        if c + 1 < cycles && ctx.chance(W, 1, 2, "edit-between-cycles") {
            let mut g = gen::Gen::new(ctx, gen::draw_cfg(ctx));
            g.cfg.max_depth = g.cfg.max_depth.min(3);
            g.ids = m.objects.keys().cloned().collect();
            if g.ids.is_empty() {
                g.ids.push((1, 0));
            }
            for _ in 0..1 + ctx.draw(W, 3, "added-objects") {
                let o = g.gen_obj(0, true);
                let id = d.add_object(sim::to_obj(&o));
                if m.objects.contains_key(&id) {
                    return Err(Violation::new("new-id-collides", format!("cycle {c}: add_object on a loaded document returned the existing id {id:?}")));
                }
                m.objects.insert(id, o);
            }
            ctx.count("edited-between-cycles");
        }
    }
    out.case_hash = h;
    out.nontrivial = !m.objects.is_empty();
    out.sample = format!("{} objects, {} cycles, first xref {}", m.objects.len(), cycles, if m.xref_stream { "stream" } else { "table" });
    Ok(())
}

/// C03: every kind of image lopdf can persist — fresh save, save after a failed
/// save, reload + resave, xref format flipped, one and two incremental appends —
/// must be valid for the strict reader and give back exactly the saved objects.
pub fn c03_images(ctx: &Ctx, out: &mut RunOut) -> Result<(), Violation> {
    let (m, _cfg) = gen::gen_doc(ctx);
    let mut d = sim::to_doc(&m);
    let mut h = 0u64;
    let save = |d: &mut lopdf::Document, what: &str| -> Result<Vec<u8>, Violation> {
        let mut sink = SimSink::new(ctx, draw_benign_sink(ctx));
        guarded("save_to", || d.save_to(&mut sink))?.map_err(|e| Violation::new("healthy-save-failed", format!("{what}: {e}")))?;
        Ok(sink.accepted)
    };
    // 1. fresh save
    let img1 = save(&mut d, "fresh save")?;
    crate::c03::check_image(ctx, &img1, &m, None)?;
    h = simcore::mix(h, simcore::fnv(&img1));
    // 2. failed save, then the same document again
    if ctx.chance(F, 1, 2, "c03-failed-save") && !img1.is_empty() {
        let off = ctx.draw(F, img1.len() as u64, "fault-offset") as usize;
        let mut cfg = draw_benign_sink(ctx);
        cfg.fault_at = Some((off, FaultKind::Hard(std::io::ErrorKind::Other)));
        let mut sink = SimSink::new(ctx, cfg);
        let r = guarded("save_to(failing sink)", || d.save_to(&mut sink))?;
        if r.is_ok() {
            return Err(Violation::new("ok-after-hard-fault", format!("save_to returned Ok after a sink fault at byte {off}")));
        }
        ctx.count("image-after-failed-save");
        let img = save(&mut d, "save after failed save")?;
        crate::c03::check_image(ctx, &img, &m, None)?;
        h = simcore::mix(h, simcore::fnv(&img));
    }
    // 3. reload + resave, possibly in the other format
    if ctx.chance(W, 1, 2, "c03-resave") {
        let mut d2 = guarded("load_mem", || sim::load_mem(&img1))?.map_err(|e| Violation::new("load-failed", format!("reload: {e}")))?;
        let mut m2 = m.clone();
        if ctx.chance(W, 1, 2, "flip-xref") {
            m2.xref_stream = !m2.xref_stream;
            d2.reference_table.cross_reference_type =
                if m2.xref_stream { lopdf::xref::XrefType::CrossReferenceStream } else { lopdf::xref::XrefType::CrossReferenceTable };
        }
        ctx.count("image-after-reload");
        let img = save(&mut d2, "resave of a loaded document")?;
        crate::c03::check_image(ctx, &img, &m2, None)?;
        h = simcore::mix(h, simcore::fnv(&img));
    }
    // 4. incremental appends
    let n_inc = ctx.draw(W, 3, "c03-incremental") as usize;
    let mut prev = img1;
    let mut model = m.clone();
    let mut g = gen::Gen::new(ctx, gen::draw_cfg(ctx));
    g.ids = m.objects.keys().cloned().collect();
    if g.ids.is_empty() {
        g.ids.push((1, 0));
    }
    g.cfg.max_depth = g.cfg.max_depth.min(3);
    for step in 0..n_inc {
        let mut inc = guarded("IncrementalDocument::load_from", || lopdf::IncrementalDocument::load_from(&prev[..]))?
            .map_err(|e| Violation::new("load-failed", format!("IncrementalDocument::load_from (step {step}): {e:?}")))?;
        let ids: Vec<(u32, u16)> = model.objects.keys().cloned().collect();
        for _ in 0..1 + ctx.draw(W, 3, "inc-edits") {
            let mut o = g.gen_obj(0, true);
            if matches!(o, MObj::Null) {
                o = MObj::Bool(true);
            }
            if ctx.chance(W, 1, 2, "inc-replace") && !ids.is_empty() {
                let id = ids[ctx.draw(W, ids.len() as u64, "inc-id") as usize];
                inc.new_document.set_object(id, sim::to_obj(&o));
                model.objects.insert(id, o);
            } else {
                let id = inc.new_document.add_object(sim::to_obj(&o));
                if model.objects.contains_key(&id) {
                    return Err(Violation::new("new-id-collides", format!("add_object on the new revision returned existing id {id:?}")));
                }
                model.objects.insert(id, o);
            }
        }
        let mut sink = SimSink::new(ctx, draw_benign_sink(ctx));
        guarded("IncrementalDocument::save_to", || inc.save_to(&mut sink))?
            .map_err(|e| Violation::new("healthy-save-failed", format!("incremental save (step {step}): {e}")))?;
        let img = sink.accepted;
        ctx.count("image-incremental");
        crate::c03::check_image(ctx, &img, &model, Some(&prev))?;
        h = simcore::mix(h, simcore::fnv(&img));
        prev = img;
    }
    // 5. a multi-revision file loaded as a plain document and saved in full
    if n_inc > 0 && ctx.chance(W, 1, 2, "c03-flatten") {
        let mut d3 = guarded("load_mem", || sim::load_mem(&prev))?.map_err(|e| Violation::new("load-failed", format!("load of the updated file: {e}")))?;
        let mut m3 = model.clone();
        m3.xref_stream = matches!(d3.reference_table.cross_reference_type, lopdf::xref::XrefType::CrossReferenceStream);
        ctx.count("image-full-save-of-multi-revision-file");
        let img = save(&mut d3, "full save of a loaded multi-revision file")?;
        crate::c03::check_image(ctx, &img, &m3, None)?;
        h = simcore::mix(h, simcore::fnv(&img));
    }
    // 6. the same in-memory document saved, edited, saved again
    if ctx.chance(W, 1, 2, "c03-save-edit-save") {
        let mut m4 = m.clone();
        for round in 0..2 {
            let o = MObj::Dict(vec![(b"Round".to_vec(), MObj::Int(round))]);
            let id = d.add_object(sim::to_obj(&o));
            if m4.objects.contains_key(&id) {
                return Err(Violation::new("new-id-collides", format!("add_object after a save returned the existing id {id:?}")));
            }
            m4.objects.insert(id, o);
            ctx.count("image-after-save-edit-save");
            let img = save(&mut d, "save after editing an already saved document")?;
            crate::c03::check_image(ctx, &img, &m4, None)?;
            h = simcore::mix(h, simcore::fnv(&img));
        }
    }
    // 7. content-changing operations on streams whose Length is an indirect object, then a save: the file
    //    must say what the document in memory says (the model is re-read from the document after the operations)
    if ctx.chance(W, 1, 3, "c03-indirect-length-ops") {
        let mut d7 = sim::to_doc(&m);
        let streams: Vec<(u32, u16)> = d7.objects.iter().filter(|(_, o)| o.as_stream().is_ok()).map(|(i, _)| *i).collect();
        let body: Vec<u8> = b"BT /F1 12 Tf (the same line again and again) Tj ET\n".iter().cycle().take(600).cloned().collect();
        let target = if streams.is_empty() || ctx.chance(W, 1, 3, "c03-new-stream") {
            d7.add_object(lopdf::Stream::new(lopdf::Dictionary::new(), body.clone()))
        } else {
            streams[ctx.draw(W, streams.len() as u64, "c03-stream") as usize]
        };
        let len_now = d7.get_object(target).and_then(|o| o.as_stream()).map(|st| st.content.len() as i64).unwrap_or(0);
        let len_id = d7.add_object(lopdf::Object::Integer(len_now));
        if let Ok(st) = d7.get_object_mut(target).and_then(|o| o.as_stream_mut()) {
            st.dict.set("Length", lopdf::Object::Reference(len_id));
        }
        for _ in 0..1 + ctx.draw(W, 3, "c03-ops") {
            match ctx.draw(W, 3, "c03-op") {
                0 => d7.compress(),
                1 => d7.decompress(),
                _ => {
                    if let Ok(st) = d7.get_object_mut(target).and_then(|o| o.as_stream_mut()) {
                        let n = 1 + ctx.draw(W, 900, "c03-new-len") as usize;
                        st.set_content(body.iter().cycle().take(n).cloned().collect());
                    }
                }
            }
        }
        let mut m7 = sim::from_doc(&d7);
        m7.version = m.version.clone();
        m7.binary_mark = m.binary_mark.clone();
        m7.xref_stream = m.xref_stream;
        ctx.count("image-after-content-ops-with-indirect-length");
        let img = save(&mut d7, "save after content-changing operations")?;
        crate::c03::check_image(ctx, &img, &m7, None)?;
        h = simcore::mix(h, simcore::fnv(&img));
    }
    out.case_hash = h;
    out.nontrivial = !m.objects.is_empty();
    out.sample = format!("{} objects, xref {}, {} incremental appends, final image {} bytes", m.objects.len(), if m.xref_stream { "stream" } else { "table" }, n_inc, prev.len());
    Ok(())
}


/// C01, plain (non-simulated) sweep: all 65 536 byte pairs as literal-string,
/// hex-string, name and dictionary-key content. One run covers the 256 pairs
/// that start with a drawn first byte.
pub fn c01_bytepairs(ctx: &Ctx, out: &mut RunOut) -> Result<(), Violation> {
    let b = ctx.draw(W, 256, "pair-first-byte") as u8;
    let mut m = MDoc::empty();
    m.xref_stream = ctx.chance(W, 1, 2, "xref-stream");
    for x in 0..=255u8 {
        let pair = vec![b, x];
        let d = vec![
            (pair.clone(), MObj::Str(pair.clone(), false)),
            (b"N".to_vec(), MObj::Name(pair.clone())),
            (b"H".to_vec(), MObj::Str(pair.clone(), true)),
            (b"A".to_vec(), MObj::Array(vec![MObj::Str(pair.clone(), false), MObj::Name(pair.clone()), MObj::Str(vec![x, b], false)])),
        ];
        // a key equal to one of the fixed keys would collapse: skip those two pairs' own key
        let d: Vec<(Vec<u8>, MObj)> = if pair == b"N".to_vec() || pair == b"H".to_vec() || pair == b"A".to_vec() { d.into_iter().skip(1).collect() } else { d };
        m.objects.insert((x as u32 + 1, 0), MObj::Dict(d));
    }
    m.max_id = 256;
    let mut d = sim::to_doc(&m);
    let mut img = Vec::new();
    guarded("save_to", || d.save_to(&mut img))?.map_err(|e| Violation::new("healthy-save-failed", format!("{e}")))?;
    crate::c03::check_image(ctx, &img, &m, None)?;
    let d2 = guarded("load_mem", || sim::load_mem(&img))?.map_err(|e| Violation::new("load-failed", format!("first byte {b:#04x}: {e}")))?;
    pdfmodel::same_doc(&m, &sim::from_doc(&d2), &|_, o| pdfmodel::is_xref_stream_obj(o)).map_err(|(c, e)| Violation::new(c, format!("byte pairs starting with {b:#04x}: {e}")))?;
    out.case_hash = b as u64 + 1;
    out.nontrivial = true;
    out.sample = format!("all 256 byte pairs starting with {b:#04x} as literal string, hex string, name and dictionary key");
    Ok(())
}


/// Run `f` while the process may not grow any file beyond `limit` bytes (SIGXFSZ ignored, so the
/// failing write returns EFBIG instead of killing the process). The limit is restored afterwards.
fn with_fsize_limit<T>(limit: u64, f: impl FnOnce() -> T) -> T {
    unsafe {
        libc::signal(libc::SIGXFSZ, libc::SIG_IGN);
        let mut old = libc::rlimit { rlim_cur: 0, rlim_max: 0 };
        libc::getrlimit(libc::RLIMIT_FSIZE, &mut old);
        let new = libc::rlimit { rlim_cur: limit as libc::rlim_t, rlim_max: old.rlim_max };
        libc::setrlimit(libc::RLIMIT_FSIZE, &new);
        let r = f();
        libc::setrlimit(libc::RLIMIT_FSIZE, &old);
        r
    }
}
