//! World C — revision histories (C07): latest revision wins, history preserved.

use crate::common::*;
use crate::runner::{guarded, RunOut, Violation};
use crate::scen_b::{compare_loaded, describe, expect_for_lopdf, gen_history, selfcheck_written};
use crate::variants::{seq, sim};
use pdfmodel::gen;
use pdfmodel::strict::{read_strict, StrictOpts};
use pdfmodel::{MDoc, MObj};
use sim::lopdf;
use simcore::io::{draw_benign_sink, draw_benign_source};
use simcore::{Ctx, SchedPolicy, SimSink, SimSource, Stream::S, Stream::W};

fn draw_sched(ctx: &Ctx) {
    ctx.set_sched(match ctx.draw(S, 4, "sched-policy") {
        0 => SchedPolicy::InOrder,
        1 => SchedPolicy::Reverse,
        _ => SchedPolicy::Random,
    });
}

/// (a) histories written by the reference producer: after every revision the
/// load of that prefix is "newest definition wins, untouched objects from
/// older revisions".
/// A history whose cross-reference chain points *forward*: the layout of a linearized file. The
/// section `startxref` names (the newest in chain order) sits near the start of the file, with the
/// objects it lists; its `/Prev` names the main section near the end. One object number is defined
/// in both parts (the first part's definition is the valid one). lopdf must recover the whole
/// document and be able to append an update to it.
fn forward_chain_case(ctx: &Ctx, out: &mut RunOut) -> Result<(), Violation> {
    use pdfmodel::refwriter::{dict_bytes, object_bytes};
    let (mut m, _) = gen::gen_doc(ctx);
    m.xref_stream = false;
    let f = ctx.draw(W, 3, "fc-freedom") as usize;
    let ids: Vec<(u32, u16)> = m.objects.keys().cloned().collect();
    if ids.len() < 2 {
        out.sample = "forward chain: document too small".into();
        return Ok(());
    }
    // part A (first in the file, newest in the chain) / part B (main part)
    let mut in_a: Vec<(u32, u16)> = ids.iter().filter(|_| ctx.chance(W, 1, 3, "fc-first-part")).cloned().collect();
    if in_a.is_empty() {
        in_a.push(ids[0]);
    }
    if in_a.len() == ids.len() {
        in_a.pop();
    }
    let in_b: Vec<(u32, u16)> = ids.iter().filter(|i| !in_a.contains(i)).cloned().collect();
    // an object of part A of which the main part holds a stale definition
    let stale = in_a[ctx.draw(W, in_a.len() as u64, "fc-stale") as usize];
    let mut img: Vec<u8> = format!("%PDF-{}\n%\u{e2}\u{e3}\u{cf}\u{d3}\n", m.version).into_bytes();
    let table = |img: &mut Vec<u8>, ents: &std::collections::BTreeMap<u32, (usize, u16, bool)>| {
        img.extend_from_slice(b"xref\n");
        let nums: Vec<u32> = ents.keys().cloned().collect();
        let mut i = 0;
        while i < nums.len() {
            let mut j = i;
            while j + 1 < nums.len() && nums[j + 1] == nums[j] + 1 {
                j += 1;
            }
            img.extend_from_slice(format!("{} {}\n", nums[i], j - i + 1).as_bytes());
            for n in &nums[i..=j] {
                let (off, g, used) = ents[n];
                img.extend_from_slice(format!("{:010} {:05} {} \n", off, g, if used { 'n' } else { 'f' }).as_bytes());
            }
            i = j + 1;
        }
    };
    let size = m.objects.keys().map(|k| k.0).max().unwrap_or(0) as i64 + 1;
    // ---- part A
    let mut ents_a = std::collections::BTreeMap::new();
    for id in &in_a {
        ents_a.insert(id.0, (img.len(), id.1, true));
        img.extend_from_slice(&object_bytes(ctx, f, *id, &m.objects[id]));
        img.push(b'\n');
    }
    let s1 = img.len();
    table(&mut img, &ents_a);
    let mut t1: pdfmodel::MDict = pdfmodel::trailer_payload(&m.trailer);
    t1.push((b"Size".to_vec(), MObj::Int(size)));
    t1.push((b"Prev".to_vec(), MObj::Int(1234567890)));
    img.extend_from_slice(b"trailer\n");
    let t1_at = img.len();
    img.extend_from_slice(&dict_bytes(ctx, f, &t1));
    if ctx.chance(W, 1, 2, "fc-early-eof") {
        // linearized files close the first part like a file of its own
        img.extend_from_slice(b"\nstartxref\n0\n%%EOF");
    }
    img.push(b'\n');
    // ---- part B
    let mut ents_b = std::collections::BTreeMap::new();
    ents_b.insert(0u32, (0usize, 65535u16, false));
    for id in in_b.iter().chain(std::iter::once(&stale)) {
        ents_b.insert(id.0, (img.len(), id.1, true));
        let o = if *id == stale { MObj::Array(vec![MObj::Name(b"Stale".to_vec()), MObj::Int(id.0 as i64)]) } else { m.objects[id].clone() };
        img.extend_from_slice(&object_bytes(ctx, f, *id, &o));
        img.push(b'\n');
    }
    let s2 = img.len();
    table(&mut img, &ents_b);
    img.extend_from_slice(b"trailer\n");
    img.extend_from_slice(&dict_bytes(ctx, f, &vec![(b"Size".to_vec(), MObj::Int(size))]));
    img.extend_from_slice(format!("\nstartxref\n{s1}\n%%EOF\n").as_bytes());
    // the forward link
    let Some(p) = img[t1_at..s2].windows(10).position(|w| w == b"1234567890") else {
        panic!("forward chain: Prev placeholder not found");
    };
    img[t1_at + p..t1_at + p + 10].copy_from_slice(format!("{:010}", s2).as_bytes());
    ctx.count("forward-prev-chain-files");
    ctx.event("c07-forward-chain", img.len() as u64, simcore::fnv(&img));
    dump_image("c07-forward-chain.pdf", &img);
    // ---- lopdf recovers the whole document, under a drawn schedule and sequentially
    draw_sched(ctx);
    let mut src = SimSource::new(ctx, &img, draw_benign_source(ctx));
    let d = guarded("load_from", || sim::load_from(&mut src))?.map_err(|e| Violation::new("load-failed", format!("file with a forward-pointing Prev chain failed to load: {e}")))?;
    let what = format!("forward-pointing Prev chain ({} objects in the first part, {} in the main part, freedom {f})", in_a.len(), in_b.len());
    pdfmodel::same_doc(&m, &sim::from_doc(&d), &|_, _: &MObj| false).map_err(|(c, e)| Violation::new(c, format!("{what}: {e}")))?;
    let d2 = guarded("load_mem(seq)", || seq::load_mem(&img))?.map_err(|e| Violation::new("load-failed", format!("{what}, sequential build: {e}")))?;
    pdfmodel::same_doc(&m, &seq::from_doc(&d2), &|_, _: &MObj| false).map_err(|(c, e)| Violation::new(c, format!("{what}, sequential build: {e}")))?;
    // ---- and can append an update to it
    let mut inc = guarded("IncrementalDocument::load_from", || lopdf::IncrementalDocument::load_from(&img[..]))?
        .map_err(|e| Violation::new("load-failed", format!("{what}: IncrementalDocument::load_from: {e:?}")))?;
    let marker = MObj::Dict(vec![(b"AddedAfter".to_vec(), MObj::Name(b"ForwardChain".to_vec()))]);
    let new_id = inc.new_document.add_object(sim::to_obj(&marker));
    if m.objects.contains_key(&new_id) {
        return Err(Violation::new("new-id-collides", format!("{what}: add_object on the new revision returned {new_id:?}, which the file already uses")));
    }
    let replaced = ids[ctx.draw(W, ids.len() as u64, "fc-replace") as usize];
    inc.new_document.set_object(replaced, sim::to_obj(&MObj::Int(4242)));
    let mut model = m.clone();
    model.objects.insert(new_id, marker);
    model.objects.insert(replaced, MObj::Int(4242));
    let mut sink = SimSink::new(ctx, draw_benign_sink(ctx));
    guarded("IncrementalDocument::save_to", || inc.save_to(&mut sink))?.map_err(|e| Violation::new("healthy-save-failed", format!("{what}: incremental save failed: {e}")))?;
    let upd = sink.accepted;
    if !upd.starts_with(&img) {
        return Err(Violation::new("prefix-modified", format!("{what}: the saved update does not start with the loaded bytes")));
    }
    let d3 = guarded("load_mem", || sim::load_mem(&upd))?.map_err(|e| Violation::new("load-failed", format!("{what}: updated file failed to load: {e}")))?;
    pdfmodel::same_doc(&model, &sim::from_doc(&d3), &|_, o: &MObj| pdfmodel::is_xref_stream_obj(o)).map_err(|(c, e)| Violation::new(c, format!("{what}: reload after an appended update: {e}")))?;
    out.case_hash = simcore::fnv(&img);
    out.nontrivial = true;
    out.sample = what;
    Ok(())
}

pub fn c07_foreign_history(ctx: &Ctx, out: &mut RunOut) -> Result<(), Violation> {
    for k in ["three-deep-prev-chains", "updates-involving-object-streams", "forward-prev-chain-files"] {
        ctx.count_n(k, 0); // registered so that a probe that never fires shows up as zero in the evidence
    }
    if ctx.chance(W, 1, 8, "forward-chain-case") {
        return forward_chain_case(ctx, out);
    }
    let h = gen_history(ctx, 4, ctx.chance(W, 1, 2, "objstm-bias"), false, false);
    let n = h.revisions.len();
    for i in 0..n {
        selfcheck_written(&h, i);
        let bytes = &h.written.bytes[..h.written.layout.revision_ends[i]];
        ctx.event("c07-prefix", i as u64, simcore::fnv(bytes));
        dump_image(&format!("c07-prefix{i}.pdf"), bytes);
        draw_sched(ctx);
        let mut src = SimSource::new(ctx, bytes, draw_benign_source(ctx));
        let d = guarded("load_from", || sim::load_from(&mut src))?
            .map_err(|e| Violation::new("load-failed", format!("prefix with {} of {} revisions ({}) failed to load: {e}", i + 1, n, describe(&h))))?;
        ctx.event("c07-loaded", i as u64, sim::full_digest(&d));
        compare_loaded(&h, i, &sim::from_doc(&d), &format!("after revision {i} of {} ({})", n - 1, describe(&h)))?;
        let d2 = guarded("load_mem(seq)", || seq::load_mem(bytes))?.map_err(|e| Violation::new("load-failed", format!("sequential build, prefix {i}: {e}")))?;
        compare_loaded(&h, i, &seq::from_doc(&d2), &format!("sequential reader after revision {i} ({})", describe(&h)))?;
    }
    ctx.set_sched(SchedPolicy::Random);
    if n >= 3 {
        ctx.count("three-deep-prev-chains");
    }
    if h.written.layout.compressed.len() > 0 && n > 1 {
        ctx.count("updates-involving-object-streams");
    }
    out.case_hash = simcore::fnv(&h.written.bytes);
    out.nontrivial = n >= 2;
    out.sample = describe(&h);
    let _ = thorough();
    Ok(())
}

/// (b) revisions written by lopdf's IncrementalDocument on top of a lopdf-saved
/// or foreign base, re-loading after every step.
pub fn c07_lopdf_updates(ctx: &Ctx, out: &mut RunOut) -> Result<(), Violation> {
    for k in ["update-on-top-of-update", "foreign-base", "lopdf-base", "update-retried-after-failed-attempt"] {
        ctx.count_n(k, 0); // registered so that a probe that never fires shows up as zero in the evidence
    }
    // ---- base image and its model
    let foreign = ctx.chance(W, 1, 2, "foreign-base");
    // integer objects that serve as an indirect stream Length in a foreign base: an update that
    // replaced one of them with something else would make the file invalid, so they are not edited
    let mut length_targets: Vec<(u32, u16)> = Vec::new();
    let (mut prev, mut model, structural): (Vec<u8>, MDoc, Vec<u32>) = if foreign {
        let h = gen_history(ctx, 1, ctx.chance(W, 1, 2, "objstm-bias"), false, false);
        let last = h.revisions.len() - 1;
        selfcheck_written(&h, last);
        ctx.count("foreign-base");
        for (_, o) in &h.written.expect[last].objects {
            if let MObj::Stream(d, _) = o {
                if let Some(MObj::Ref(n, g)) = pdfmodel::dict_get(d, b"Length") {
                    length_targets.push((*n, *g));
                }
            }
        }
        length_targets.extend(h.written.layout.container_length_objs.iter().map(|n| (*n, 0)));
        (h.written.bytes.clone(), expect_for_lopdf(&h.written.expect[last]), h.written.structural_ids[last].clone())
    } else {
        let (m, _) = gen::gen_doc(ctx);
        let mut d = sim::to_doc(&m);
        let mut img = Vec::new();
        guarded("save_to", || d.save_to(&mut img))?.map_err(|e| Violation::new("healthy-save-failed", format!("base save: {e}")))?;
        ctx.count("lopdf-base");
        (img, m, vec![])
    };
    let structural_ok = |id: (u32, u16), o: &MObj| pdfmodel::is_xref_stream_obj(o) || (structural.contains(&id.0) && pdfmodel::is_objstm_obj(o));
    let mut g = gen::Gen::new(ctx, gen::draw_cfg(ctx));
    g.cfg.max_depth = g.cfg.max_depth.min(3);
    g.ids = model.objects.keys().cloned().collect();
    if g.ids.is_empty() {
        g.ids.push((1, 0));
    }
    let steps = 1 + ctx.draw(W, 3, "update-steps") as usize;
    let mut h = simcore::fnv(&prev);
    for step in 0..steps {
        draw_sched(ctx);
        let mut src = SimSource::new(ctx, &prev, draw_benign_source(ctx));
        let mut inc = guarded("IncrementalDocument::load_from", || lopdf::IncrementalDocument::load_from(&mut src))?
            .map_err(|e| Violation::new("load-failed", format!("step {step}: IncrementalDocument::load_from failed: {e:?}")))?;
        if inc.get_prev_documents_bytes() != &prev[..] {
            return Err(Violation::new("prefix-modified", format!("step {step}: get_prev_documents_bytes differs from the loaded bytes")));
        }
        // the view of the previous revisions = the model so far
        pdfmodel::same_doc(&model, &sim::from_doc(inc.get_prev_documents()), &structural_ok)
            .map_err(|(c, e)| Violation::new(c, format!("step {step}: previous revisions as loaded: {e}")))?;
        let prev_digest = sim::full_digest(inc.get_prev_documents());
        // ---- edits on the new revision
        let ids: Vec<(u32, u16)> = model.objects.keys().filter(|k| !length_targets.contains(k)).cloned().collect();
        let mut touched: Vec<(u32, u16)> = Vec::new();
        for _ in 0..1 + ctx.draw(W, 4, "update-edits") {
            let mut o = g.gen_obj(0, true);
            if matches!(o, MObj::Null) {
                o = MObj::Name(b"Edited".to_vec());
            }
            if ctx.chance(W, 1, 2, "update-replace") && !ids.is_empty() {
                let id = ids[ctx.draw(W, ids.len() as u64, "update-id") as usize];
                if ctx.chance(W, 1, 2, "via-clone") {
                    // convenience call, not part of C07's statement: its result is not judged
                    // (it fails e.g. when the object is itself a dangling reference)
                    if guarded("opt_clone_object_to_new_document", || inc.opt_clone_object_to_new_document(id))?.is_ok() {
                        ctx.count("opt-clone-ok");
                    }
                }
                inc.new_document.set_object(id, sim::to_obj(&o));
                model.objects.insert(id, o);
                touched.push(id);
            } else {
                let id = inc.new_document.add_object(sim::to_obj(&o));
                if model.objects.contains_key(&id) || structural.contains(&id.0) || sim::from_doc(inc.get_prev_documents()).objects.contains_key(&id) {
                    return Err(Violation::new("new-id-collides", format!("step {step}: add_object on the new revision returned {id:?}, which the file already uses")));
                }
                model.objects.insert(id, o);
                touched.push(id);
            }
        }
        touched.sort();
        touched.dedup();
        // a quarter of the updates are first attempted on a sink that fails somewhere inside the
        // appended part; the retry on a healthy sink must give the same revision as if nothing had happened
        if ctx.chance(simcore::Stream::F, 1, 4, "failed-attempt-first") {
            let mut probe = Vec::new();
            if guarded("IncrementalDocument::save_to", || inc.save_to(&mut probe))?.is_ok() && probe.len() > prev.len() {
                let off = prev.len() + ctx.draw(simcore::Stream::F, (probe.len() - prev.len()) as u64, "attempt-fault-offset") as usize;
                let mut cfg = draw_benign_sink(ctx);
                cfg.fault_at = Some((off, simcore::io::FaultKind::Hard(std::io::ErrorKind::Other)));
                let mut bad = SimSink::new(ctx, cfg);
                if guarded("IncrementalDocument::save_to(failing sink)", || inc.save_to(&mut bad))?.is_ok() {
                    return Err(Violation::new("ok-after-hard-fault", format!("step {step}: incremental save returned Ok after a sink fault at byte {off}")));
                }
                ctx.count("update-retried-after-failed-attempt");
            }
        }
        let mut sink = SimSink::new(ctx, draw_benign_sink(ctx));
        guarded("IncrementalDocument::save_to", || inc.save_to(&mut sink))?
            .map_err(|e| Violation::new("healthy-save-failed", format!("step {step}: incremental save failed: {e}")))?;
        let img = sink.accepted;
        ctx.event("c07-update-image", img.len() as u64, simcore::fnv(&img));
        dump_image(&format!("c07-update{step}.pdf"), &img);
        h = simcore::mix(h, simcore::fnv(&img));
        if sim::full_digest(inc.get_prev_documents()) != prev_digest {
            return Err(Violation::new("history-view-modified", format!("step {step}: editing/saving the new revision changed get_prev_documents()")));
        }
        if !img.starts_with(&prev) {
            return Err(Violation::new("prefix-modified", format!("step {step}: the saved file does not start with the previously loaded bytes")));
        }
        // the appended part: exactly the new/replaced objects + one section pointing back
        let sd = read_strict(&img, &StrictOpts { trusted_prefix: prev.len(), allow_leading_junk: false, binary_comment_optional: foreign })
            .map_err(|e| Violation::new("strict:appended-part", format!("step {step}: strict reader rejects the appended revision: {e}")))?;
        let mut newest: Vec<u32> = sd.newest_section_ids.iter().filter(|n| !sd.xref_stream_ids.contains(n)).cloned().collect();
        newest.sort();
        let want: Vec<u32> = touched.iter().map(|i| i.0).collect();
        if newest != want {
            return Err(Violation::new(
                "appended-objects-wrong",
                format!("step {step}: the appended cross-reference section defines objects {:?}, the update touched {:?}", newest, want),
            ));
        }
        crate::c03::check_image_opt(ctx, &img, &strip_structural(&model), Some(&prev), foreign).map_err(|mut v| {
            v.detail = format!("step {step}: {}", v.detail);
            v
        })?;
        // latest revision wins on reload (parallel under a drawn schedule, and sequential)
        draw_sched(ctx);
        let d = guarded("load_mem", || sim::load_mem(&img))?.map_err(|e| Violation::new("load-failed", format!("step {step}: updated file failed to load: {e}")))?;
        pdfmodel::same_doc(&model, &sim::from_doc(&d), &structural_ok).map_err(|(c, e)| Violation::new(c, format!("step {step}: reload of the updated file: {e}")))?;
        let d = guarded("load_mem(seq)", || seq::load_mem(&img))?.map_err(|e| Violation::new("load-failed", format!("step {step}: sequential build: {e}")))?;
        pdfmodel::same_doc(&model, &seq::from_doc(&d), &structural_ok).map_err(|(c, e)| Violation::new(c, format!("step {step}: sequential reload: {e}")))?;
        if step > 0 {
            ctx.count("update-on-top-of-update");
        }
        prev = img;
    }
    ctx.set_sched(SchedPolicy::Random);
    out.case_hash = h;
    out.nontrivial = true;
    out.sample = format!("{} base, {} update step(s), final {} bytes", if foreign { "foreign" } else { "lopdf" }, steps, prev.len());
    Ok(())
}

/// The strict reader reports user objects only.
fn strip_structural(m: &MDoc) -> MDoc {
    let mut x = m.clone();
    x.objects.retain(|_, o| !pdfmodel::is_xref_stream_obj(o) && !pdfmodel::is_objstm_obj(o));
    x
}


/// (c) a foreign producer appends revisions to a file lopdf wrote: every prefix must load to
/// "newest definition wins", and lopdf must be able to extend the result once more.
pub fn c07_foreign_on_lopdf(ctx: &Ctx, out: &mut RunOut) -> Result<(), Violation> {
    use pdfmodel::refwriter::{self, Revision, Seed, XrefStyle};
    let (m, _) = gen::gen_doc(ctx);
    let mut d = sim::to_doc(&m);
    let mut sink = SimSink::new(ctx, draw_benign_sink(ctx));
    guarded("save_to", || d.save_to(&mut sink))?.map_err(|e| Violation::new("healthy-save-failed", format!("base save: {e}")))?;
    let base = sink.accepted;
    // where the base's cross-reference section is, read independently
    let sd = read_strict(&base, &StrictOpts { trusted_prefix: 0, allow_leading_junk: false, binary_comment_optional: false })
        .map_err(|e| Violation::new("strict:rejects", format!("strict reader rejects the lopdf-written base: {e}")))?;
    // the base must already be what was asked for: otherwise the disagreement would surface below as
    // a quarrel between the reference writer and the strict reader
    pdfmodel::same_doc(&m, &sd.doc, &|_, _: &MObj| false)
        .map_err(|(c, e)| Violation::new(format!("strict:{c}"), format!("strict reader recovers a different document from the lopdf-written base: {e}")))?;
    let seed = Seed { bytes: base.clone(), prev_xref: sd.section_offsets[0] as u64, max_num: sd.doc.max_id, objects: m.objects.clone() };
    // update revisions
    let mut g = gen::Gen::new(ctx, gen::draw_cfg(ctx));
    g.cfg.max_depth = g.cfg.max_depth.min(3);
    g.cfg.nonzero_gen = false;
    g.ids = m.objects.keys().cloned().collect();
    if g.ids.is_empty() {
        g.ids.push((1, 0));
    }
    let ids: Vec<(u32, u16)> = m.objects.keys().cloned().collect();
    let mut next_new = sd.doc.max_id + 1;
    let n_updates = 1 + ctx.draw(W, 2, "foreign-updates") as usize;
    let mut revisions = Vec::new();
    for _ in 0..n_updates {
        let mut objs = std::collections::BTreeMap::new();
        for _ in 0..1 + ctx.draw(W, 4, "rev-edits") {
            let o = g.gen_obj(0, ctx.chance(W, 1, 3, "rev-stream"));
            if ctx.chance(W, 2, 3, "rev-replace") && !ids.is_empty() {
                objs.insert(ids[ctx.draw(W, ids.len() as u64, "rev-id") as usize], o);
            } else {
                objs.insert((next_new, 0), o);
                next_new += 1 + ctx.draw(W, 2, "rev-gap") as u32;
            }
        }
        revisions.push(Revision { objects: objs, trailer: pdfmodel::trailer_payload(&m.trailer) });
    }
    let mut opts = refwriter::draw_opts(ctx, n_updates, &m.version, &m.binary_mark);
    opts.styles = vec![if m.xref_stream { XrefStyle::Stream } else { XrefStyle::Table }; n_updates];
    opts.leading_junk = false;
    opts.raw_cr_eol = false;
    let w = refwriter::write_history_on(ctx, Some(&seed), &revisions, &opts);
    if !w.bytes.starts_with(&base) {
        panic!("reference writer changed the seed bytes");
    }
    for i in 0..n_updates {
        let bytes = &w.bytes[..w.layout.revision_ends[i]];
        dump_image(&format!("c07-foreign-on-lopdf{i}.pdf"), bytes);
        // keep the producer honest
        let st = read_strict(bytes, &StrictOpts { trusted_prefix: base.len(), allow_leading_junk: false, binary_comment_optional: false })
            .unwrap_or_else(|e| panic!("reference writer appended a revision the strict reader rejects: {e}"));
        let mut exp = w.expect[i].clone();
        exp.trailer = pdfmodel::trailer_payload(&exp.trailer);
        let mut got = st.doc.clone();
        got.trailer = pdfmodel::trailer_payload(&got.trailer);
        if let Err((c, e)) = pdfmodel::same_doc(&exp, &got, &|_, _| false) {
            panic!("strict reader and reference writer disagree on the appended revision {i} ({c}): {e}");
        }
        ctx.event("c07-foreign-on-lopdf", i as u64, simcore::fnv(bytes));
        draw_sched(ctx);
        let mut src = SimSource::new(ctx, bytes, draw_benign_source(ctx));
        let dl = guarded("load_from", || sim::load_from(&mut src))?
            .map_err(|e| Violation::new("load-failed", format!("lopdf-written base + {} foreign revision(s) failed to load: {e}", i + 1)))?;
        let expect = expect_for_lopdf(&w.expect[i]);
        let structural = &w.structural_ids[i];
        let extra = |id: (u32, u16), o: &MObj| pdfmodel::is_xref_stream_obj(o) || (structural.contains(&id.0) && pdfmodel::is_objstm_obj(o));
        pdfmodel::same_doc(&expect, &sim::from_doc(&dl), &extra)
            .map_err(|(c, e)| Violation::new(c, format!("lopdf-written base + foreign revision {i} ({:?}, freedom {}): {e}", opts.styles[0], opts.freedom)))?;
        let ds = guarded("load_mem(seq)", || seq::load_mem(bytes))?.map_err(|e| Violation::new("load-failed", format!("sequential build: {e}")))?;
        pdfmodel::same_doc(&expect, &seq::from_doc(&ds), &extra).map_err(|(c, e)| Violation::new(c, format!("sequential reader, foreign revision {i} on a lopdf base: {e}")))?;
    }
    ctx.set_sched(SchedPolicy::Random);
    ctx.count("foreign-revision-on-lopdf-base");
    out.case_hash = simcore::fnv(&w.bytes);
    out.nontrivial = true;
    out.sample = format!("lopdf base {} bytes ({}), {} foreign update(s), final {} bytes", base.len(), if m.xref_stream { "xref stream" } else { "xref table" }, n_updates, w.bytes.len());
    Ok(())
}
