//! World D — encryption (C05). The RNG behind lopdf's `rand::rng()` is the
//! simulator's R stream (IVs, salts, pad bytes replayable and adversarial),
//! with a save/load leg through the simulated sink, source and scheduler.

use crate::runner::{guarded, RunOut, Violation};
use crate::variants::sim;
use pdfmodel::gen;
use pdfmodel::{dict_get, MDoc, MObj};
use sim::lopdf;
use lopdf::encryption::crypt_filters::{Aes128CryptFilter, Aes256CryptFilter, CryptFilter, IdentityCryptFilter, Rc4CryptFilter};
use lopdf::{EncryptionState, EncryptionVersion, Permissions};
use simcore::ctx::RNG_MODES;
use simcore::io::{draw_benign_sink, draw_benign_source};
use simcore::{Ctx, SimSink, SimSource, Stream::R, Stream::W};
use std::collections::BTreeMap;
use std::sync::Arc;

#[derive(Clone, Copy, PartialEq, Eq, Debug)]
pub(crate) enum Kind {
    Identity,
    Rc4,
    Aes128,
    Aes256,
}

pub(crate) fn mk(kind: Kind) -> Arc<dyn CryptFilter> {
    match kind {
        Kind::Identity => Arc::new(IdentityCryptFilter),
        Kind::Rc4 => Arc::new(Rc4CryptFilter),
        Kind::Aes128 => Arc::new(Aes128CryptFilter),
        Kind::Aes256 => Arc::new(Aes256CryptFilter),
    }
}

fn draw_password(ctx: &Ctx, label: &'static str) -> String {
    match ctx.draw(W, 10, label) {
        0 => String::new(),
        // longer than 127 bytes and not ASCII: the 127-byte cut of revisions 5/6 falls inside a
        // character (7, 9) or between two characters (8)
        7 => "\u{e9}".repeat(70),
        8 => format!("a{}", "\u{434}".repeat(70)),
        9 => "\u{5bc6}".repeat(45),
        1 => "user".to_string(),
        2 => "pass word(1)\\".to_string(),
        3 => "пароль-密码-ß".to_string(),
        4 => "0123456789abcdef0123456789abcdefXYZ-longer-than-32".to_string(),
        5 => "L".repeat(130),
        _ => {
            let n = 1 + ctx.draw(W, 40, "pw-len") as usize;
            (0..n).map(|_| (b'!' + ctx.draw(W, 90, "pw-ch") as u8) as char).collect()
        }
    }
}

/// Walk an object: which strings / stream bodies are in it, with the model's id.
fn collect_payload(o: &MObj, strings: &mut Vec<Vec<u8>>) {
    match o {
        MObj::Str(s, _) => strings.push(s.clone()),
        MObj::Array(a) => a.iter().for_each(|x| collect_payload(x, strings)),
        MObj::Dict(d) => d.iter().for_each(|(_, v)| collect_payload(v, strings)),
        _ => {}
    }
}

struct Setup {
    label: String,
    revision: i64,
    str_kind: Kind,
    stm_kind: Kind,
    filters: BTreeMap<Vec<u8>, Kind>,
    encrypt_metadata: bool,
}

pub fn c05_encrypt(ctx: &Ctx, out: &mut RunOut) -> Result<(), Violation> {
    for k in ["save-load-leg", "auto-decrypted-on-load", "decrypt-with-owner-pw", "wrong-password-rejected", "crypt-filter-override", "metadata-stream", "metadata-dictionary", "state-rejected-input"] {
        ctx.count_n(k, 0); // registered so that a probe that never fires shows up as zero in the evidence
    }
    ctx.set_rng_mode(RNG_MODES[ctx.draw(R, RNG_MODES.len() as u64, "rng-mode") as usize]);
    // ---- workload: document
    let mut cfg = gen::draw_cfg(ctx);
    cfg.n_objects = cfg.n_objects.min(25);
    cfg.max_depth = cfg.max_depth.min(6);
    // strings and streams are what this property is about
    cfg.kinds |= (1 << 5) | (1 << 6) | (1 << 8) | (1 << 9);
    let mut g = gen::Gen::new(ctx, cfg);
    let mut m: MDoc = g.gen_doc();
    // a file identifier (needed by revisions 2-4)
    pdfmodel::dict_remove(&mut m.trailer, b"ID");
    let id0 = gen::gen_bytes(ctx, gen::Alphabet::Binary, 20);
    m.trailer.push((b"ID".to_vec(), MObj::Array(vec![MObj::Str(id0.clone(), true), MObj::Str(id0, true)])));
    // ---- configuration
    let user_pw = draw_password(ctx, "user-pw");
    let owner_pw = match ctx.draw(W, 3, "owner-pw-class") {
        0 => user_pw.clone(),
        _ => {
            let p = draw_password(ctx, "owner-pw");
            if p.is_empty() {
                "owner".to_string()
            } else {
                p
            }
        }
    };
    let perms = Permissions::from_bits_truncate(ctx.draw(W, 1 << 12, "permissions"));
    let version = ctx.draw(W, 5, "enc-version");
    let encrypt_metadata = ctx.chance(W, 1, 2, "encrypt-metadata");
    let fek: Vec<u8> = (0..32).map(|_| ctx.draw(W, 256, "fek") as u8).collect();
    let mut filters: BTreeMap<Vec<u8>, Kind> = BTreeMap::new();
    let names: [&[u8]; 3] = [b"StdCF", b"Other", b"Identity"];
    let (setup, state_res) = {
        let doc_for_state = sim::to_doc(&m);
        match version {
            0 => {
                let v = EncryptionVersion::V1 { document: &doc_for_state, owner_password: &owner_pw, user_password: &user_pw, permissions: perms };
                (
                    Setup { label: "V1".into(), revision: 2, str_kind: Kind::Rc4, stm_kind: Kind::Rc4, filters: filters.clone(), encrypt_metadata: true },
                    guarded("EncryptionState::try_from", || EncryptionState::try_from(v))?,
                )
            }
            1 => {
                let key_length = 40 + 8 * ctx.draw(W, 12, "key-length") as usize;
                let v = EncryptionVersion::V2 { document: &doc_for_state, owner_password: &owner_pw, user_password: &user_pw, key_length, permissions: perms };
                (
                    Setup { label: format!("V2/{key_length}"), revision: 3, str_kind: Kind::Rc4, stm_kind: Kind::Rc4, filters: filters.clone(), encrypt_metadata: true },
                    guarded("EncryptionState::try_from", || EncryptionState::try_from(v))?,
                )
            }
            _ => {
                let aes = if version == 2 { Kind::Aes128 } else { Kind::Aes256 };
                let choices: &[Kind] = if version == 2 { &[Kind::Aes128, Kind::Rc4, Kind::Identity] } else { &[Kind::Aes256, Kind::Identity] };
                filters.insert(names[0].to_vec(), if ctx.chance(W, 1, 3, "stdcf-other") { choices[ctx.draw(W, choices.len() as u64, "stdcf-kind") as usize] } else { aes });
                if ctx.chance(W, 1, 2, "cf-other") {
                    filters.insert(names[1].to_vec(), choices[ctx.draw(W, choices.len() as u64, "other-kind") as usize]);
                }
                if ctx.chance(W, 1, 3, "cf-identity") {
                    filters.insert(names[2].to_vec(), Kind::Identity);
                }
                let keys: Vec<Vec<u8>> = filters.keys().cloned().collect();
                let stm = keys[ctx.draw(W, keys.len() as u64, "stmf") as usize].clone();
                let strf = keys[ctx.draw(W, keys.len() as u64, "strf") as usize].clone();
                let cf: BTreeMap<Vec<u8>, Arc<dyn CryptFilter>> = filters.iter().map(|(k, v)| (k.clone(), mk(*v))).collect();
                let setup = Setup {
                    label: format!("{} stm={:?} str={:?}", ["", "", "V4", "R5", "V5"][version as usize], filters[&stm], filters[&strf]),
                    revision: [0, 0, 4, 5, 6][version as usize],
                    str_kind: filters[&strf],
                    stm_kind: filters[&stm],
                    filters: filters.clone(),
                    encrypt_metadata,
                };
                #[allow(deprecated)]
                let v = match version {
                    2 => EncryptionVersion::V4 {
                        document: &doc_for_state,
                        encrypt_metadata,
                        crypt_filters: cf,
                        stream_filter: stm,
                        string_filter: strf,
                        owner_password: &owner_pw,
                        user_password: &user_pw,
                        permissions: perms,
                    },
                    3 => EncryptionVersion::R5 {
                        encrypt_metadata,
                        crypt_filters: cf,
                        file_encryption_key: &fek,
                        stream_filter: stm,
                        string_filter: strf,
                        owner_password: &owner_pw,
                        user_password: &user_pw,
                        permissions: perms,
                    },
                    _ => EncryptionVersion::V5 {
                        encrypt_metadata,
                        crypt_filters: cf,
                        file_encryption_key: &fek,
                        stream_filter: stm,
                        string_filter: strf,
                        owner_password: &owner_pw,
                        user_password: &user_pw,
                        permissions: perms,
                    },
                };
                (setup, guarded("EncryptionState::try_from", || EncryptionState::try_from(v))?)
            }
        }
    };
    let state = match state_res {
        Ok(s) => s,
        Err(e) => {
            // e.g. SASLprep rejects the password: an input error, not a property violation
            ctx.count("state-rejected-input");
            out.sample = format!("{}: state rejected: {e:?}", setup.label);
            return Ok(());
        }
    };
    // ---- special objects: metadata streams and per-stream Crypt overrides
    let mut next_id = m.max_id + 1;
    let mut special: Vec<((u32, u16), Option<Kind>)> = Vec::new(); // id -> effective stream filter kind (None = exempt)
    if ctx.chance(W, 1, 2, "add-metadata") {
        let body = b"<?xpacket begin?><x:xmpmeta>0123456789abcdef</x:xmpmeta>".to_vec();
        let d = vec![
            (b"Type".to_vec(), MObj::Name(b"Metadata".to_vec())),
            (b"Subtype".to_vec(), MObj::Name(b"XML".to_vec())),
            (b"Length".to_vec(), MObj::Int(body.len() as i64)),
        ];
        m.objects.insert((next_id, 0), MObj::Stream(d, body));
        special.push(((next_id, 0), if setup.encrypt_metadata { Some(setup.stm_kind) } else { None }));
        next_id += 1;
        ctx.count("metadata-stream");
    }
    // a plain dictionary (not a stream) that calls itself /Type /Metadata, with strings in it and
    // below it: whatever the handler decides about it, both directions must decide the same
    if ctx.chance(W, 1, 4, "add-metadata-dict") {
        let d = vec![
            (b"Type".to_vec(), MObj::Name(b"Metadata".to_vec())),
            (b"Note".to_vec(), MObj::Str(b"a note of more than sixteen bytes".to_vec(), false)),
            (b"History".to_vec(), MObj::Array(vec![MObj::Str(b"0123456789abcdef0123".to_vec(), true), MObj::Dict(vec![(b"By".to_vec(), MObj::Str(b"somebody, some time ago".to_vec(), false))])])),
        ];
        m.objects.insert((next_id, 0), MObj::Dict(d));
        next_id += 1;
        ctx.count("metadata-dictionary");
    }
    if setup.revision >= 4 && ctx.chance(W, 1, 2, "add-crypt-override") {
        let keys: Vec<Vec<u8>> = setup.filters.keys().cloned().collect();
        let (name, kind): (Option<Vec<u8>>, Kind) = match ctx.draw(W, 3, "override-target") {
            0 => (None, Kind::Identity), // no Name: Identity
            1 => (Some(b"NoSuchFilter".to_vec()), Kind::Identity),
            _ => {
                let k = keys[ctx.draw(W, keys.len() as u64, "override-name") as usize].clone();
                let kind = setup.filters[&k];
                (Some(k), kind)
            }
        };
        let body = gen::gen_bytes(ctx, gen::Alphabet::Binary, 80);
        let mut parms = vec![(b"Type".to_vec(), MObj::Name(b"CryptFilterDecodeParms".to_vec()))];
        if let Some(n) = name {
            parms.push((b"Name".to_vec(), MObj::Name(n)));
        }
        let array_form = ctx.chance(W, 1, 2, "crypt-array");
        let filter = if array_form { MObj::Array(vec![MObj::Name(b"Crypt".to_vec())]) } else { MObj::Name(b"Crypt".to_vec()) };
        // DecodeParms may be an array parallel to Filter. lopdf only honours the dictionary form
        // for the Crypt override (array form = no override, the default stream filter applies on
        // both sides), so the effective filter of that stream is the default one.
        let parms_array = array_form && ctx.chance(W, 1, 2, "parms-array");
        let parms_obj = if parms_array { MObj::Array(vec![MObj::Dict(parms)]) } else { MObj::Dict(parms) };
        let kind = if parms_array { setup.stm_kind } else { kind };
        let d = vec![(b"Filter".to_vec(), filter), (b"DecodeParms".to_vec(), parms_obj), (b"Length".to_vec(), MObj::Int(body.len() as i64))];
        m.objects.insert((next_id, 0), MObj::Stream(d, body));
        special.push(((next_id, 0), Some(kind)));
        next_id += 1;
        ctx.count("crypt-filter-override");
    }
    m.max_id = next_id - 1;

    let mut plain = sim::to_doc(&m);
    // a quarter of the cases: the document to encrypt was loaded from a foreign producer's file
    // (its object-stream containers and cross-reference stream objects are then part of the
    // in-memory document and go through encryption like everything else)
    if ctx.chance(W, 1, 4, "start-from-foreign-file") {
        use pdfmodel::refwriter::{self, Revision};
        let revs = vec![Revision { objects: m.objects.clone(), trailer: pdfmodel::trailer_payload(&m.trailer) }];
        let mut opts = refwriter::draw_opts(ctx, 1, &m.version, &m.binary_mark);
        opts.raw_cr_eol = false;
        opts.leading_junk = false;
        let wr = refwriter::write_history(ctx, &revs, &opts);
        plain = guarded("load_mem", || sim::load_mem(&wr.bytes))?.map_err(|e| Violation::new("load-failed", format!("load of a reference-writer file: {e}")))?;
        m = crate::scen_b::expect_for_lopdf(&wr.expect[0]);
        ctx.count("start-from-foreign-file");
    }
    let mut enc = plain.clone();
    guarded("Document::encrypt", || enc.encrypt(&state))?.map_err(|e| Violation::new("encrypt-failed", format!("{}: encrypt: {e:?}", setup.label)))?;
    ctx.event("c05-encrypted", enc.objects.len() as u64, sim::full_digest(&enc));
    if !enc.is_encrypted() {
        return Err(Violation::new("not-encrypted", format!("{}: is_encrypted() is false after encrypt", setup.label)));
    }
    // ---- no long plaintext survives under a non-identity filter
    let enc_m = sim::from_doc(&enc);
    let mut protected = 0u64;
    for (id, o) in &m.objects {
        let Some(e) = enc_m.objects.get(id) else {
            return Err(Violation::new("object-missing", format!("{}: object {id:?} disappeared in encrypt", setup.label)));
        };
        let exempt_meta = matches!(o, MObj::Stream(d, _) | MObj::Dict(d) if dict_get(d, b"Type") == Some(&MObj::Name(b"Metadata".to_vec()))) && !setup.encrypt_metadata;
        if exempt_meta {
            continue;
        }
        if let (MObj::Stream(_, pb), MObj::Stream(_, eb)) = (o, e) {
            let kind = special.iter().find(|s| s.0 == *id).map(|s| s.1).unwrap_or(Some(setup.stm_kind));
            if let Some(k) = kind {
                if k != Kind::Identity && pb.len() >= 16 {
                    protected += 1;
                    if pb == eb {
                        return Err(Violation::new("plaintext-survives", format!("{}: stream {id:?} ({} bytes, filter {k:?}) equals its plaintext after encrypt", setup.label, pb.len())));
                    }
                }
            }
        } else if setup.str_kind != Kind::Identity {
            let (mut ps, mut es) = (Vec::new(), Vec::new());
            collect_payload(o, &mut ps);
            collect_payload(e, &mut es);
            if ps.len() != es.len() {
                return Err(Violation::new("object-differs", format!("{}: object {id:?} changed shape in encrypt", setup.label)));
            }
            for (p, c) in ps.iter().zip(&es) {
                if p.len() >= 16 {
                    protected += 1;
                    if p == c {
                        return Err(Violation::new("plaintext-survives", format!("{}: a {}-byte string in object {id:?} equals its plaintext after encrypt (filter {:?})", setup.label, p.len(), setup.str_kind)));
                    }
                }
            }
        }
    }
    ctx.count_n("protected-payloads-checked", protected);

    // ---- decrypt legs
    let same_as_plain = |d: &lopdf::Document, what: &str| -> Result<(), Violation> {
        let got = sim::from_doc(d);
        pdfmodel::same_doc(&m, &got, &|_, o| pdfmodel::is_xref_stream_obj(o) || pdfmodel::is_objstm_obj(o))
            .map_err(|(c, e)| Violation::new(format!("decrypt:{c}"), format!("{} {what}: {e}", setup.label)))?;
        if dict_get(&got.trailer, b"Encrypt").is_some() {
            return Err(Violation::new("encrypt-entry-left", format!("{} {what}: trailer still has Encrypt", setup.label)));
        }
        if d.is_encrypted() {
            return Err(Violation::new("encrypt-entry-left", format!("{} {what}: is_encrypted() still true", setup.label)));
        }
        Ok(())
    };
    let wrong = "zz-wrong-password";
    let pws: Vec<(&str, &str)> = if owner_pw == user_pw { vec![("user", user_pw.as_str())] } else { vec![("user", user_pw.as_str()), ("owner", owner_pw.as_str())] };
    for (who, pw) in &pws {
        ctx.count(if *who == "user" { "decrypt-with-user-pw" } else { "decrypt-with-owner-pw" });
        let mut d = enc.clone();
        guarded("Document::decrypt", || d.decrypt(pw))?
            .map_err(|e| Violation::new("decrypt-rejected", format!("{}: in-memory decrypt with the {who} password failed: {e:?}", setup.label)))?;
        same_as_plain(&d, &format!("in-memory decrypt({who})"))?;
    }
    // wrong password: Err and unchanged
    {
        let mut d = enc.clone();
        let before = sim::full_digest(&d);
        let r = guarded("Document::decrypt(wrong)", || d.decrypt(wrong))?;
        if r.is_ok() {
            return Err(Violation::new("wrong-password-accepted", format!("{}: decrypt with a password that is neither user nor owner returned Ok", setup.label)));
        }
        if sim::full_digest(&d) != before {
            return Err(Violation::new("wrong-password-mutates", format!("{}: a rejected password changed the document", setup.label)));
        }
        ctx.count("wrong-password-rejected");
    }
    // ---- save + load leg
    if ctx.chance(W, 2, 3, "save-load-leg") {
        let mut sink = SimSink::new(ctx, draw_benign_sink(ctx));
        let mut e2 = enc.clone();
        guarded("save_to", || e2.save_to(&mut sink))?.map_err(|e| Violation::new("healthy-save-failed", format!("{}: saving the encrypted document: {e}", setup.label)))?;
        let bytes = sink.accepted;
        ctx.event("c05-image", bytes.len() as u64, simcore::fnv(&bytes));
        let mut src = SimSource::new(ctx, &bytes, draw_benign_source(ctx));
        let loaded = guarded("load_from", || sim::load_from(&mut src))?
            .map_err(|e| Violation::new("load-failed", format!("{}: loading the saved encrypted document: {e}", setup.label)))?;
        ctx.count("save-load-leg");
        if !loaded.is_encrypted() {
            // the loader decrypts by itself when the empty password authenticates
            ctx.count("auto-decrypted-on-load");
            same_as_plain(&loaded, "auto-decrypt on load")?;
        } else {
            if user_pw.is_empty() {
                return Err(Violation::new("auto-decrypt-missing", format!("{}: empty user password but the loaded document is still encrypted", setup.label)));
            }
            for (who, pw) in &pws {
                let mut d = loaded.clone();
                guarded("Document::decrypt", || d.decrypt(pw))?
                    .map_err(|e| Violation::new("decrypt-rejected", format!("{}: decrypt after save+load with the {who} password failed: {e:?}", setup.label)))?;
                same_as_plain(&d, &format!("decrypt({who}) after save+load"))?;
            }
            let mut d = loaded.clone();
            let before = sim::full_digest(&d);
            if guarded("Document::decrypt(wrong)", || d.decrypt(wrong))?.is_ok() {
                return Err(Violation::new("wrong-password-accepted", format!("{}: wrong password accepted after save+load", setup.label)));
            }
            if sim::full_digest(&d) != before {
                return Err(Violation::new("wrong-password-mutates", format!("{}: a rejected password changed the loaded document", setup.label)));
            }
        }
    }
    // ---- second cycle: a decrypted document is a document like any other. Encrypt the result of the
    // in-memory decryption again under a different handler and different passwords, decrypt, compare.
    if ctx.chance(W, 1, 3, "second-cycle") {
        let mut d = enc.clone();
        guarded("Document::decrypt", || d.decrypt(&user_pw))?.map_err(|e| Violation::new("decrypt-rejected", format!("{}: decrypt before the second cycle: {e:?}", setup.label)))?;
        let (u2, o2) = ("second user \u{e9}".to_string(), "2nd-owner-password-longer-than-thirty-two-bytes".to_string());
        let which = ctx.draw(W, 4, "second-version");
        let state2 = {
            let cf = |k: Kind| -> BTreeMap<Vec<u8>, Arc<dyn CryptFilter>> { BTreeMap::from([(b"StdCF".to_vec(), mk(k))]) };
            let v = match which {
                0 => EncryptionVersion::V1 { document: &d, owner_password: &o2, user_password: &u2, permissions: perms },
                1 => EncryptionVersion::V2 { document: &d, owner_password: &o2, user_password: &u2, key_length: 128, permissions: perms },
                2 => EncryptionVersion::V4 {
                    document: &d,
                    encrypt_metadata: !encrypt_metadata,
                    crypt_filters: cf(Kind::Aes128),
                    stream_filter: b"StdCF".to_vec(),
                    string_filter: b"StdCF".to_vec(),
                    owner_password: &o2,
                    user_password: &u2,
                    permissions: perms,
                },
                _ => EncryptionVersion::V5 {
                    encrypt_metadata: !encrypt_metadata,
                    crypt_filters: cf(Kind::Aes256),
                    file_encryption_key: &fek,
                    stream_filter: b"StdCF".to_vec(),
                    string_filter: b"StdCF".to_vec(),
                    owner_password: &o2,
                    user_password: &u2,
                    permissions: perms,
                },
            };
            guarded("EncryptionState::try_from", || EncryptionState::try_from(v))?
        };
        if let Ok(state2) = state2 {
            let label2 = format!("{} then {}", setup.label, ["V1", "V2/128", "V4 AES-128", "V5"][which as usize]);
            guarded("Document::encrypt", || d.encrypt(&state2))?.map_err(|e| Violation::new("encrypt-failed", format!("{label2}: second encrypt: {e:?}")))?;
            ctx.count("second-cycle");
            for (who, pw) in [("user", &u2), ("owner", &o2)] {
                let mut x = d.clone();
                guarded("Document::decrypt", || x.decrypt(pw))?
                    .map_err(|e| Violation::new("decrypt-rejected", format!("{label2}: decrypt with the new {who} password failed: {e:?}")))?;
                let got = sim::from_doc(&x);
                pdfmodel::same_doc(&m, &got, &|_, o| pdfmodel::is_xref_stream_obj(o) || pdfmodel::is_objstm_obj(o))
                    .map_err(|(c, e)| Violation::new(format!("decrypt:{c}"), format!("{label2}, decrypt({who}) of the re-encrypted document: {e}")))?;
            }
            // the old passwords are wrong passwords now
            if user_pw != u2 && user_pw != o2 {
                let mut x = d.clone();
                if guarded("Document::decrypt(old password)", || x.decrypt(&user_pw))?.is_ok() && !user_pw.is_empty() {
                    return Err(Violation::new("wrong-password-accepted", format!("{label2}: the user password of the first encryption still opens the re-encrypted document")));
                }
            }
        }
    }
    ctx.count_n("rng-bytes-served", ctx.rng_bytes());
    out.case_hash = simcore::mix(sim::full_digest(&enc), simcore::mix_str(1, &setup.label));
    out.nontrivial = protected > 0;
    out.sample = format!("{}, {} objects, {} protected payloads, user pw {} bytes, owner {}", setup.label, m.objects.len(), protected, user_pw.len(), if owner_pw == user_pw { "== user".to_string() } else { format!("{} bytes", owner_pw.len()) });
    Ok(())
}
