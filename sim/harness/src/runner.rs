//! One simulated run: a scenario driven by a `Ctx` (seed or trace).

use simcore::{Ctx, Trace};
use std::cell::RefCell;
use std::collections::BTreeMap;
use std::panic::{catch_unwind, AssertUnwindSafe};

#[derive(Clone, Debug)]
pub struct Violation {
    /// coarse cause; minimisation keeps it fixed
    pub class: String,
    pub detail: String,
}
impl Violation {
    pub fn new(class: impl Into<String>, detail: impl Into<String>) -> Violation {
        Violation { class: class.into(), detail: detail.into() }
    }
}

/// What a scenario reports about the case it explored.
#[derive(Default, Clone, Debug)]
pub struct RunOut {
    /// identifies the explored case (workload + fault/schedule configuration)
    pub case_hash: u64,
    /// non-trivial by the scenario's stated rule
    pub nontrivial: bool,
    /// human-readable description of the case (kept for a few runs as samples)
    pub sample: String,
    /// a listed known finding was met and skipped (signature names)
    pub known_hits: Vec<&'static str>,
}

pub type Scenario = fn(&Ctx, &mut RunOut) -> Result<(), Violation>;

pub struct RunResult {
    pub violation: Option<Violation>,
    pub harness_error: Option<String>,
    pub out: RunOut,
    pub hash: u64,
    pub events: u64,
    pub counters: BTreeMap<&'static str, u64>,
    pub trace: Trace,
    pub log: Vec<String>,
}

// process-wide (a worker executes one run at a time; code under test may panic on a helper thread)
static LAST_PANIC: std::sync::Mutex<Option<String>> = std::sync::Mutex::new(None);
thread_local! {
    static IN_GUARD: RefCell<u32> = const { RefCell::new(0) };
}

pub fn install_panic_hook() {
    std::panic::set_hook(Box::new(|info| {
        let loc = info.location().map(|l| format!("{}:{}", l.file(), l.line())).unwrap_or_default();
        let msg = if let Some(s) = info.payload().downcast_ref::<&str>() {
            s.to_string()
        } else if let Some(s) = info.payload().downcast_ref::<String>() {
            s.clone()
        } else {
            "<non-string panic>".to_string()
        };
        if let Ok(mut p) = LAST_PANIC.lock() {
            // keep the first panic of a run (a re-raised panic must not overwrite its origin)
            if p.is_none() {
                *p = Some(format!("{} :: {}", loc, msg));
            }
        }
    }));
}

fn take_panic() -> String {
    LAST_PANIC.lock().ok().and_then(|mut p| p.take()).unwrap_or_else(|| "<unknown panic>".into())
}

/// Strip the line number and message: the class of a panic is its source file.
fn panic_class(p: &str) -> String {
    let loc = p.split(" :: ").next().unwrap_or("");
    let file = loc.rsplit_once(':').map(|x| x.0).unwrap_or(loc);
    let file = file.strip_prefix("/repo/").unwrap_or(file);
    format!("panic@{}", file)
}

/// Run code of the system under simulation; a panic there is a property
/// violation (C04/C19: "never panics"), reported with its location.
pub fn guarded<T>(what: &str, f: impl FnOnce() -> T) -> Result<T, Violation> {
    IN_GUARD.with(|g| *g.borrow_mut() += 1);
    let r = catch_unwind(AssertUnwindSafe(f));
    IN_GUARD.with(|g| *g.borrow_mut() -= 1);
    match r {
        Ok(v) => Ok(v),
        Err(_) => {
            let p = take_panic();
            Err(Violation::new(panic_class(&p), format!("{} panicked: {}", what, p)))
        }
    }
}

fn exec(scenario: Scenario, ctx: Ctx) -> RunResult {
    ctx.install();
    let mut out = RunOut::default();
    let r = catch_unwind(AssertUnwindSafe(|| scenario(&ctx, &mut out)));
    Ctx::uninstall();
    let (violation, harness_error) = match r {
        Ok(Ok(())) => (None, None),
        Ok(Err(v)) => (Some(v), None),
        // a panic outside `guarded` is a bug of the harness, never a finding
        Err(_) => (None, Some(format!("harness panic: {}", take_panic()))),
    };
    RunResult {
        violation,
        harness_error,
        out,
        hash: ctx.hash(),
        events: ctx.events(),
        counters: ctx.counters(),
        trace: ctx.trace(),
        log: ctx.log(),
    }
}

pub fn run_seed(scenario: Scenario, seed: u64, log: bool) -> RunResult {
    let ctx = Ctx::from_seed(seed);
    if log {
        ctx.enable_log();
    }
    exec(scenario, ctx)
}

/// Like `run_seed`, but every draw is written to `path` as it happens.
pub fn run_seed_recording(scenario: Scenario, seed: u64, path: &std::path::Path) -> RunResult {
    let ctx = Ctx::from_seed(seed);
    if let Ok(f) = std::fs::File::create(path) {
        ctx.record_to(f);
    }
    exec(scenario, ctx)
}

pub fn run_trace(scenario: Scenario, trace: &Trace, log: bool) -> RunResult {
    let ctx = Ctx::from_trace(trace.clone());
    if log {
        ctx.enable_log();
    }
    exec(scenario, ctx)
}
