mod alloc;
mod c03;
mod common;
mod driver;
mod evidence;
mod known;
mod props;
mod runner;
mod scen_a;
mod scen_b;
mod scen_c;
mod scen_d;
mod scen_e;
mod scen_f;
mod variants;

#[global_allocator]
static GLOBAL: alloc::Counting = alloc::Counting;

fn usage() -> i32 {
    eprintln!(
        "usage: verif-sim check <property> <quick|thorough>\n       verif-sim replay <file>\n       verif-sim list\n       (internal: worker, exec-trace)"
    );
    2
}

fn main() {
    let args: Vec<String> = std::env::args().skip(1).collect();
    let code = match args.first().map(|s| s.as_str()) {
        Some("check") if args.len() >= 3 => driver::check_main(&args[1], &args[2]),
        Some("replay") if args.len() >= 2 => driver::replay_main(&args[1]),
        Some("worker") if args.len() >= 9 => driver::worker_main(&args[1..]),
        Some("exec-trace") if args.len() >= 5 => driver::exec_trace_main(&args[1..]),
        Some("show") if args.len() >= 2 => {
            // human-readable view of a replay file: the violation and the event log without the raw draws
            let v: serde_json::Value = serde_json::from_slice(&std::fs::read(&args[1]).expect("read")).expect("json");
            println!("{} / {} / {}: {}\n{}", v["property"], v["batch"], v["tier"], v["class"], v["detail"].as_str().unwrap_or(""));
            for l in v["log"].as_array().cloned().unwrap_or_default() {
                let l = l.as_str().unwrap_or("").to_string();
                if !l.starts_with("draw ") {
                    println!("  {l}");
                }
            }
            0
        }
        Some("load-file") if args.len() >= 2 => {
            // debugging aid: load a file with the simulated build (in-order schedule) and the sequential build
            let b = std::fs::read(&args[1]).expect("read");
            println!("sim: {:?}", variants::sim::load_outcome(&b));
            println!("seq: {:?}", variants::seq::load_outcome(&b));
            0
        }
        Some("hashes") if args.len() >= 7 => {
            // determinism self-check: one line per run (index, event-log hash, case hash, violation class)
            common::set_tier(&args[3]);
            let prop = props::find(&args[1]).expect("property");
            let batch = prop.batches.iter().find(|b| b.name == args[2]).expect("batch");
            let seed: u64 = args[4].parse().unwrap();
            let (lo, hi): (u64, u64) = (args[5].parse().unwrap(), args[6].parse().unwrap());
            let sc = batch.scenario;
            let (pid, bn) = (prop.id, batch.name);
            std::thread::Builder::new()
                .stack_size(16 << 20)
                .spawn(move || {
                    runner::install_panic_hook();
                    for idx in lo..hi {
                        let r = runner::run_seed(sc, driver::seed_for(seed, pid, bn, idx), false);
                        println!(
                            "{} {:016x} {:016x} {} {}",
                            idx,
                            r.hash,
                            r.out.case_hash,
                            r.trace.total_len(),
                            r.violation.map(|v| v.class).or(r.harness_error.map(|e| format!("HARNESS:{e}"))).unwrap_or_else(|| "-".into())
                        );
                    }
                })
                .unwrap()
                .join()
                .unwrap();
            0
        }
        Some("record-seed") if args.len() >= 6 => {
            // run one seed while writing every draw to a file (used to minimise process-killing violations)
            common::set_tier(&args[3]);
            let prop = props::find(&args[1]).expect("property");
            let batch = prop.batches.iter().find(|b| b.name == args[2]).expect("batch");
            let seed: u64 = args[4].parse().unwrap();
            let sc = batch.scenario;
            let path = std::path::PathBuf::from(&args[5]);
            std::thread::Builder::new()
                .stack_size(16 << 20)
                .spawn(move || {
                    runner::install_panic_hook();
                    let _ = runner::run_seed_recording(sc, seed, &path);
                })
                .unwrap()
                .join()
                .ok();
            0
        }
        Some("list") => {
            for p in props::all() {
                println!("{} {} batches={}", p.id, p.level, p.batches.iter().map(|b| b.name).collect::<Vec<_>>().join(","));
            }
            0
        }
        _ => usage(),
    };
    std::process::exit(code);
}
