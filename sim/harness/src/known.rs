//! Known findings (DESIGN.md 2.6): while a signature is listed as `open` in
//! /verif/KNOWN_FINDINGS.txt, exploration carves exactly its trigger out of
//! the domain and a dedicated probe re-creates the minimal case.

use std::sync::OnceLock;

static OPEN: OnceLock<Vec<String>> = OnceLock::new();

/// Is `sig` listed as an open finding? Every process (driver, workers, replay)
/// reads the committed file itself, so all of them explore the same domain.
pub fn is_open(sig: &str) -> bool {
    OPEN.get_or_init(|| crate::driver::load_known().into_iter().map(|k| k.sig).collect()).iter().any(|s| s == sig)
}

/// Deterministic probe for a listed signature: Some(true) = still fails,
/// Some(false) = no longer fails, None = unknown signature.
pub fn probe(sig: &str) -> Option<bool> {
    match sig {
        "raw-cr-eol-in-literal-string" => Some(probe_raw_cr_eol()),
        _ => None,
    }
}

/// D7: ISO 32000-1 7.3.4.2 — an unescaped end-of-line marker inside a literal
/// string is read as a single LF whether written as CR, LF or CR LF. Minimal
/// file: object 1 is `(a<CR>b<CR><LF>c)`; a conforming reader returns
/// 61 0A 62 0A 63. (The repository's own test `parser::tests::parse_string`
/// pins the non-conforming behaviour, so this cannot be repaired without
/// editing the suite; see DESIGN.md.)
fn probe_raw_cr_eol() -> bool {
    let body = b"%PDF-1.4\n1 0 obj\n(a\rb\r\nc)\nendobj\n";
    let xref_at = body.len();
    let mut f = body.to_vec();
    f.extend_from_slice(format!("xref\n0 2\n0000000000 65535 f \n{:010} 00000 n \ntrailer\n<</Size 2>>\nstartxref\n{}\n%%EOF", 9, xref_at).as_bytes());
    match crate::variants::sim::lopdf::Document::load_mem(&f) {
        Ok(d) => match d.objects.get(&(1, 0)) {
            Some(crate::variants::sim::lopdf::Object::String(s, _)) => s.as_slice() != b"a\nb\nc",
            _ => true,
        },
        Err(_) => true,
    }
}
