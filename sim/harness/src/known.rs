//! Known findings (DESIGN.md 2.6): while a signature is listed as `open` in
//! /verif/KNOWN_FINDINGS.txt, exploration carves exactly its trigger out of
//! the domain and a dedicated probe re-creates the minimal case.

use std::sync::OnceLock;

static OPEN: OnceLock<Vec<String>> = OnceLock::new();

pub fn set_open(sigs: Vec<String>) {
    let _ = OPEN.set(sigs);
}

/// Is `sig` listed as an open finding? (worker processes read the file themselves)
pub fn is_open(sig: &str) -> bool {
    OPEN.get_or_init(|| crate::driver::load_known().into_iter().map(|k| k.sig).collect()).iter().any(|s| s == sig)
}

/// Deterministic probe for a listed signature: Some(true) = still fails,
/// Some(false) = no longer fails, None = unknown signature.
pub fn probe(sig: &str) -> Option<bool> {
    match sig {
        _ => None,
    }
}
