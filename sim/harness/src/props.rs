//! Which scenarios decide which property, and with which budgets.

use crate::runner::Scenario;

pub struct Batch {
    pub name: &'static str,
    pub scenario: Scenario,
    /// number of simulated runs per tier (fixed, so that a seed always explores the same set)
    pub quick: u64,
    pub thorough: u64,
    /// what the simulator varies in this batch (for the evidence file)
    pub varies: &'static str,
}

pub struct Prop {
    pub id: &'static str,
    pub level: &'static str,
    pub rule: &'static str,
    pub assumptions: &'static [&'static str],
    pub batches: Vec<Batch>,
}

pub fn all() -> Vec<Prop> {
    vec![
        Prop {
            id: "C19",
            level: "fault_enumeration",
            rule: "one case = one generated document (plain or incremental, table or stream xref) with its set of armed sink faults; \
                   distinct = distinct (complete output bytes, plain/incremental) hash; non-trivial = at least one hard fault fired inside the output \
                   and the document has at least one object. Per case: chunking/EINTR-only saves must equal the reference bytes; every armed offset \
                   (thorough: every byte offset for outputs <= 6000 bytes, two fault kinds; quick: all structural boundaries +-1 plus 32 drawn) must give Err + exact prefix; \
                   sampled faulted documents are saved again on a healthy sink and reloaded against the model",
            assumptions: &[
                "the sink seam is the std::io::Write argument of save_to; save(path) is exercised with real kernel failures (/dev/full, ENOENT, EISDIR) only",
                "documents come from the C01 generator (carve-outs of DESIGN.md 3.2)",
            ],
            batches: vec![
                Batch { name: "sweep", scenario: crate::scen_a::c19_sweep, quick: 50000, thorough: 40000, varies: "fault offset x fault kind x EINTR bursts x chunk policy x xref format x plain/incremental" },
                Batch { name: "file", scenario: crate::scen_a::c19_file, quick: 2000, thorough: 20000, varies: "real kernel faults on save(path): ENOSPC below/above the BufWriter buffer, ENOENT, EISDIR" },
            ],
        },
        Prop {
            id: "C01",
            level: "exploration",
            rule: "one case = one generated document driven through 1-3 save/load cycles (xref format possibly flipped between cycles) with drawn sink chunking/EINTR, \
                   drawn source chunking/EINTR and a drawn completion order of the parallel loading phase, plus the sequential build; \
                   distinct = distinct hash of the produced byte images; non-trivial = document has at least one object",
            assumptions: &[
                "workload domain carve-outs of DESIGN.md 3.2 (no object 0, no top-level ObjStm/XRef/Linearized-typed objects, streams built with Stream::new)",
                "equality is rules R1-R4 of DESIGN.md 3.4",
            ],
            batches: vec![Batch { name: "roundtrip", scenario: crate::scen_a::c01_roundtrip, quick: 200000, thorough: 5000000, varies: "sink chunking/EINTR x source chunking/EINTR x loader completion order x repeated cycles x parallel/sequential reader" },
                Batch { name: "byte-pairs", scenario: crate::scen_a::c01_bytepairs, quick: 3000, thorough: 6000, varies: "(plain sweep, not simulation) all 65536 byte pairs as string / hex string / name / dictionary key content; 256 pairs per run, the distinct count reports how many of the 256 first bytes were covered" }],
        },
        Prop {
            id: "C03",
            level: "exploration",
            rule: "one case = one generated document persisted in every way lopdf can persist it (fresh save through a chunking sink, save after a failed save, reload + resave with the xref format possibly flipped, 0-2 incremental appends); \
                   every fully accepted image is read by the independent strict reader (DESIGN.md 3.3), which must accept it, account for every byte and recover exactly the model; \
                   distinct = distinct hash of the image sequence; non-trivial = document has at least one object",
            assumptions: &[
                "the strict reader implements exactly the structural demands C03 lists (header + binary comment, startxref, exact offsets, 20-byte entries, W/Index/Length consistency, stream Length, Size, byte accounting)",
                "for incremental saves the previously accepted image is trusted as a prefix",
            ],
            batches: vec![Batch { name: "images", scenario: crate::scen_a::c03_images, quick: 250000, thorough: 5000000, varies: "sink chunking/EINTR x failed-then-repeated saves x reload/resave x incremental appends (persist step under faults)" }],
        },
        Prop {
            id: "C05",
            level: "exploration",
            rule: "one case = one generated document x security handler configuration (V1; V2 40..128; V4/R5/V5 with named crypt filters of kind RC4/AES/Identity assigned independently to strings and streams, Crypt overrides, EncryptMetadata) x password pair x RNG mode of the rand seam; \
                   checked: encrypt leaves no >=16-byte plaintext under a non-identity filter; decrypt with user and with owner password, in memory and after save(SimSink)+load(SimSource, drawn schedule), restores the model and removes Encrypt; a wrong password gives Err and leaves the document digest unchanged; \
                   distinct = distinct (encrypted document digest, configuration); non-trivial = at least one protected payload of >= 16 bytes",
            assumptions: &[
                "every byte the library asks its RNG for comes from the simulator (rand shim); all five RNG modes are legal OS RNG outputs",
                "wrong passwords differ from both real ones within their first 32 ASCII bytes (no reliance on lopdf's password sanitisation)",
                "configurations the constructor rejects (e.g. SASLprep-prohibited passwords) are skipped and counted",
            ],
            batches: vec![Batch { name: "encrypt", scenario: crate::scen_d::c05_encrypt, quick: 70000, thorough: 1500000, varies: "RNG bytes (IVs, salts, pad bytes; 5 adversarial modes) x sink/source chunking x loader schedule x in-memory vs persisted path" }],
        },
        Prop {
            id: "C11",
            level: "exploration",
            rule: "one case = one well-formed page-tree document (generated, or saved and loaded first) x a program of 1-12 public editing calls (new_object_id, add/set/delete_object, remove_object, prune_objects, delete_pages, renumber_objects(_with), compress, decompress, change_page_content, add_page_contents, add_to_page_content, add_xobject, add_graphics_state, get_or_create_resources, add_bookmark+build_outline, save_to on a chunking/interrupting/failing sink, crash+reload of the last accepted image under a drawn loader schedule); \
                   after every call the before/after states are checked against the operation's frame and the post-conditions I1-I7 (DESIGN.md Appendix A); distinct = distinct (operation sequence, final document digest); non-trivial = at least 2 operations executed",
            assumptions: &[
                "starting documents are well-formed (each page once in one Kids, Count correct, content decodable); catalog, page-tree nodes, pages and content streams are never the target of an explicit delete_object/set_object",
                "the independent reading of page order, page content tokens, usable resources and reachability is pdfmodel/src/pagegen.rs",
            ],
            batches: vec![Batch { name: "program", scenario: crate::scen_e::c11_program, quick: 250000, thorough: 5000000, varies: "sink chunking/EINTR/hard faults inside save_to x crash-and-reload as an operation x loader schedule and source chunking on reload x operation programs" }],
        },
        Prop {
            id: "C02",
            level: "exploration",
            rule: "one case = one abstract document (0-2 update revisions) emitted by the independent reference writer with every syntactic choice of ISO 32000-1 7.2-7.5 drawn from the seed (white-space, comments, EOLs, string/name escapes, number spellings, object order, multi-subsection tables, xref streams of any W/Index, Flate + PNG predictors, object streams, indirect Length, leading junk), loaded through a chunking/interrupting source under 2-3 completion orders and by the sequential build; \
                   distinct = distinct file bytes; non-trivial = at least one object. The writer is itself cross-checked against the strict reader on every file (disagreement = harness error)",
            assumptions: &[
                "the reference writer emits only standard-conforming files (kept honest by the independent strict reader on every generated file)",
                "rules R1-R3 and R6 (an indirect stream Length may come back as the resolved integer); structural objects (xref streams, ObjStm containers) are allowed extras",
                "hybrid-reference files and revisions that free objects are outside the domain",
            ],
            batches: vec![Batch { name: "foreign", scenario: crate::scen_b::c02_foreign, quick: 300000, thorough: 6000000, varies: "source read chunking/EINTR x loader completion order x parallel/sequential reader (producer syntax is workload from a simulated peer)" }],
        },
        Prop {
            id: "C08",
            level: "exploration",
            rule: "one case = one history rich in object streams from the reference writer, as the valid image and 1-3 storage-fault-corrupted variants; each image is loaded under 8 (quick) / 24 (thorough) schedules (in-order, reverse, rotations, random permutations of the parallel section; simulated pool sizes 1..16) and by the sequential build; the full-state digest or the error must be identical everywhere; \
                   distinct = distinct file bytes; non-trivial = at least two object streams or two objects. Reach is reported as the number of distinct relative completion orders of the ObjStm containers actually executed",
            assumptions: &[
                "Mode P of the rayon shim (closure-granular permutation) is exact for the code as it stands: every closure enters at most one critical section (DESIGN.md 2.2)",
                "the fidelity batch (real rayon, real pools) is not a deciding step: mismatches are counted and reported, never a VIOLATION",
            ],
            batches: vec![
                Batch { name: "schedules", scenario: crate::scen_b::c08_schedules, quick: 15000, thorough: 100000, varies: "completion order of the parallel loading phase x nested section order x simulated pool size x storage faults on the stored image" },
                Batch { name: "fidelity", scenario: crate::scen_b::c08_fidelity, quick: 300, thorough: 3000, varies: "(stub fidelity, non-deciding) real rayon pools of 1,2,4,8,16 threads" },
            ],
        },
        Prop {
            id: "C07",
            level: "exploration",
            rule: "one case = one revision history: (foreign) base + 0-4 update revisions written by the reference writer in table or stream style with updated objects plain or in new object streams, every prefix loaded under a drawn schedule and by the sequential build; (lopdf) a lopdf-saved or foreign base extended 1-3 times through IncrementalDocument (load through a chunking source, edit, save through a chunking sink), after every step: prefix bytes unchanged, appended part = exactly the touched objects + one section whose Prev is the previous startxref (strict reader), previous-revisions view unchanged, result loads (parallel + sequential) to the model and takes another update; \
                   distinct = distinct image hashes; non-trivial = at least one update revision",
            assumptions: &[
                "reference writer kept honest by the strict reader on every prefix",
                "bases with bytes before the header are excluded from the IncrementalDocument legs",
            ],
            batches: vec![
                Batch { name: "foreign-history", scenario: crate::scen_c::c07_foreign_history, quick: 50000, thorough: 800000, varies: "revision histories x who wrote each revision x loader completion order x source chunking" },
                Batch { name: "lopdf-updates", scenario: crate::scen_c::c07_lopdf_updates, quick: 50000, thorough: 800000, varies: "IncrementalDocument load/edit/save cycles (a quarter with a failed attempt first) x sink and source chunking/EINTR x loader completion order" },
                Batch { name: "foreign-on-lopdf", scenario: crate::scen_c::c07_foreign_on_lopdf, quick: 60000, thorough: 900000, varies: "lopdf-written base (chunking sink) extended by 1-2 revisions of the reference writer x loader completion order x source chunking" },
            ],
        },
        Prop {
            id: "C04",
            level: "exploration",
            rule: "one case = one valid artefact (rich page-tree document with Type0 font + ToUnicode CMap, Flate/LZW/ASCII85 filter chains with predictors, text strings; saved by lopdf or emitted by the reference writer with object streams / xref streams; multi-revision histories; repository assets) x 6 (quick) / 12 (thorough) variants, each hit by 1-4 storage faults (truncation, bit flips, byte bursts, digit edits, zeroed / stale / misdirected / duplicated blocks, splices; half of them aimed at structural fields) and read through load_mem, load_from on a chunking/failing/short source, or IncrementalDocument::load_from on a 2 MiB stack; every document that still loads is pushed through all decoders (filters, content, object stream, xref stream, font encoding + text decoding, text strings, page content, text extraction); plus raw faulted content streams and CMaps given to the decoders directly; \
                   oracle: the call returns - no panic (overflow checks on), no abort, no stack overflow, no hang, largest single allocation <= 16 MiB + 4096 x input, peak heap <= 64 MiB + 4096 x input; distinct = distinct hash of the faulted image set; non-trivial = at least one fault applied",
            assumptions: &[
                "claimed only over the fault-reachable neighbourhood of valid artefacts, not over grammar-directed adversarial constructions (DESIGN.md 4 / C04)",
                "stack bound = 2 MiB (default of std and rayon worker threads)",
            ],
            batches: vec![Batch { name: "faulted", scenario: crate::scen_f::c04_faulted, quick: 30000, thorough: 600000, varies: "storage faults on stored artefacts x read faults (short reads, EINTR, hard error, early EOF) x loader schedule x allocator budget x 2 MiB stack" }],
        },
    ]
}

pub fn find(id: &str) -> Option<Prop> {
    all().into_iter().find(|p| p.id == id)
}
