//! Batch driver: worker processes, aggregation, minimisation, replay files,
//! known findings, evidence.

use crate::common::*;
use crate::props::{Batch, Prop};
use crate::runner::{self, RunResult, Scenario};
use serde_json::{json, Value};
use simcore::{mix, mix_str, Trace};
use std::collections::{BTreeMap, BTreeSet};
use std::io::Read;
use std::os::unix::fs::FileExt;
use std::os::unix::process::ExitStatusExt;
use std::path::{Path, PathBuf};
use std::process::{Child, Command, Stdio};
use std::time::{Duration, Instant};

pub const DEFAULT_SEED: u64 = 20261003;

/// A single simulated run takes milliseconds (the heaviest, a full C19 offset sweep, a few seconds):
/// no progress for this long is a hang.
pub fn hang_limit() -> Duration {
    Duration::from_secs(std::env::var("VERIF_HANG_S").ok().and_then(|s| s.parse().ok()).unwrap_or(60))
}

pub fn seed_for(verif_seed: u64, prop: &str, batch: &str, idx: u64) -> u64 {
    mix(mix_str(mix_str(verif_seed, prop), batch), idx)
}

pub fn verif_root() -> PathBuf {
    std::env::var("VERIF_ROOT").map(PathBuf::from).unwrap_or_else(|_| PathBuf::from("/verif"))
}

fn run_dir() -> PathBuf {
    let p = scratch_dir().join(format!("run-{}", std::process::id()));
    let _ = std::fs::create_dir_all(&p);
    p
}

pub fn trim(mut t: Trace) -> Trace {
    for v in t.v.iter_mut() {
        while v.last() == Some(&0) {
            v.pop();
        }
    }
    t
}

pub fn trace_to_json(t: &Trace) -> Value {
    json!({"W": t.v[0], "F": t.v[1], "S": t.v[2], "R": t.v[3]})
}
pub fn trace_from_json(v: &Value) -> Trace {
    let mut t = Trace::default();
    for (i, k) in ["W", "F", "S", "R"].iter().enumerate() {
        if let Some(a) = v.get(*k).and_then(|x| x.as_array()) {
            t.v[i] = a.iter().filter_map(|x| x.as_u64()).collect();
        }
    }
    t
}

// ------------------------------------------------------------------ worker side

/// `worker <prop> <batch> <tier> <seed> <lo> <hi> <outfile> <markerfile>`
pub fn worker_main(args: &[String]) -> i32 {
    let (prop_id, batch_name, tier) = (&args[0], &args[1], &args[2]);
    let seed: u64 = args[3].parse().unwrap();
    let lo: u64 = args[4].parse().unwrap();
    let hi: u64 = args[5].parse().unwrap();
    let outfile = PathBuf::from(&args[6]);
    let marker = std::fs::OpenOptions::new().create(true).write(true).truncate(false).open(&args[7]).unwrap();
    set_tier(tier);
    let prop = crate::props::find(prop_id).expect("unknown property");
    let batch = prop.batches.iter().find(|b| b.name == *batch_name).expect("unknown batch");
    let scenario = batch.scenario;
    let (pid, bn) = (prop.id, batch.name);

    let handle = std::thread::Builder::new()
        .stack_size(16 << 20)
        .spawn(move || {
            runner::install_panic_hook();
            let mut counters: BTreeMap<String, u64> = BTreeMap::new();
            let mut violations = Vec::new();
            let mut harness_errors = Vec::new();
            let mut hashes: Vec<u8> = Vec::new();
            let mut samples: Vec<Value> = Vec::new();
            let mut known: BTreeMap<String, u64> = BTreeMap::new();
            let (mut events, mut hash_acc, mut draws) = (0u64, 0u64, 0u64);
            let mut per_run = Vec::new();
            let dump = std::env::var("VERIF_DUMP_HASHES").is_ok();
            let mut done = 0u64;
            for idx in lo..hi {
                let _ = marker.write_at(&(idx + 1).to_le_bytes(), 0);
                let r = runner::run_seed(scenario, seed_for(seed, pid, bn, idx), false);
                done += 1;
                events += r.events;
                draws += r.trace.total_len() as u64;
                hash_acc = hash_acc.wrapping_add(mix(r.hash, idx));
                for (k, v) in &r.counters {
                    *counters.entry(k.to_string()).or_insert(0) += v;
                }
                for k in &r.out.known_hits {
                    *known.entry(k.to_string()).or_insert(0) += 1;
                }
                if dump {
                    per_run.push(format!("{} {:016x} {:016x}", idx, r.hash, r.out.case_hash));
                }
                if let Some(e) = r.harness_error {
                    harness_errors.push(json!({"idx": idx, "error": e}));
                    if harness_errors.len() >= 5 {
                        break;
                    }
                    continue;
                }
                if let Some(v) = r.violation {
                    violations.push(json!({"idx": idx, "class": v.class, "detail": v.detail}));
                    if violations.len() >= 12 {
                        break;
                    }
                    continue;
                }
                if r.out.nontrivial {
                    hashes.extend_from_slice(&r.out.case_hash.to_le_bytes());
                }
                if samples.len() < 2 && !r.out.sample.is_empty() {
                    samples.push(json!({"run": idx, "case": r.out.sample}));
                }
            }
            let _ = marker.write_at(&0u64.to_le_bytes(), 0);
            let _ = std::fs::write(outfile.with_extension("hashes"), &hashes);
            if dump {
                let _ = std::fs::write(outfile.with_extension("perrun"), per_run.join("\n"));
            }
            let out = json!({
                "lo": lo, "hi": hi, "done": done, "violations": violations, "harness_errors": harness_errors,
                "counters": counters, "events": events, "draws": draws, "hash_acc": hash_acc, "samples": samples, "known": known,
            });
            std::fs::write(&outfile, serde_json::to_vec(&out).unwrap()).unwrap();
        })
        .unwrap();
    match handle.join() {
        Ok(()) => 0,
        Err(_) => 3,
    }
}

// ------------------------------------------------------------------ driver side

#[derive(Default)]
pub struct BatchAgg {
    pub runs: u64,
    pub events: u64,
    pub draws: u64,
    pub hash_acc: u64,
    pub counters: BTreeMap<String, u64>,
    pub known: BTreeMap<String, u64>,
    pub distinct: BTreeSet<u64>,
    pub samples: Vec<Value>,
    /// (idx, class, detail)
    pub violations: Vec<(u64, String, String)>,
    pub harness_errors: Vec<String>,
    pub wall_s: f64,
}

struct Job {
    lo: u64,
    hi: u64,
    child: Child,
    out: PathBuf,
    marker: PathBuf,
    last_marker: u64,
    last_change: Instant,
}

fn spawn_worker(prop: &str, batch: &str, tier: &str, seed: u64, lo: u64, hi: u64, dir: &Path, n: usize) -> Job {
    let out = dir.join(format!("{}-{}-{}.json", batch, lo, n));
    let marker = dir.join(format!("{}-{}-{}.marker", batch, lo, n));
    let _ = std::fs::write(&marker, 0u64.to_le_bytes());
    let exe = std::env::current_exe().unwrap();
    let child = Command::new(exe)
        .args(["worker", prop, batch, tier, &seed.to_string(), &lo.to_string(), &hi.to_string()])
        .arg(&out)
        .arg(&marker)
        .stdin(Stdio::null())
        .stdout(Stdio::null())
        .stderr(Stdio::piped())
        .spawn()
        .expect("spawn worker");
    Job { lo, hi, child, out, marker, last_marker: 0, last_change: Instant::now() }
}

fn read_marker(p: &Path) -> u64 {
    let mut b = [0u8; 8];
    if let Ok(mut f) = std::fs::File::open(p) {
        let _ = f.read_exact(&mut b);
    }
    u64::from_le_bytes(b)
}

fn absorb(agg: &mut BatchAgg, out: &Path) -> bool {
    let Ok(bytes) = std::fs::read(out) else { return false };
    let Ok(v) = serde_json::from_slice::<Value>(&bytes) else { return false };
    agg.runs += v["done"].as_u64().unwrap_or(0);
    agg.events += v["events"].as_u64().unwrap_or(0);
    agg.draws += v["draws"].as_u64().unwrap_or(0);
    agg.hash_acc = agg.hash_acc.wrapping_add(v["hash_acc"].as_u64().unwrap_or(0));
    if let Some(c) = v["counters"].as_object() {
        for (k, n) in c {
            *agg.counters.entry(k.clone()).or_insert(0) += n.as_u64().unwrap_or(0);
        }
    }
    if let Some(c) = v["known"].as_object() {
        for (k, n) in c {
            *agg.known.entry(k.clone()).or_insert(0) += n.as_u64().unwrap_or(0);
        }
    }
    for x in v["violations"].as_array().cloned().unwrap_or_default() {
        agg.violations.push((
            x["idx"].as_u64().unwrap_or(0),
            x["class"].as_str().unwrap_or("").to_string(),
            x["detail"].as_str().unwrap_or("").to_string(),
        ));
    }
    for x in v["harness_errors"].as_array().cloned().unwrap_or_default() {
        agg.harness_errors.push(format!("run {}: {}", x["idx"], x["error"].as_str().unwrap_or("")));
    }
    if agg.samples.len() < 4 {
        for s in v["samples"].as_array().cloned().unwrap_or_default() {
            if agg.samples.len() < 4 {
                agg.samples.push(s);
            }
        }
    }
    if let Ok(h) = std::fs::read(out.with_extension("hashes")) {
        for c in h.chunks_exact(8) {
            agg.distinct.insert(u64::from_le_bytes(c.try_into().unwrap()));
        }
    }
    let _ = std::fs::remove_file(out);
    let _ = std::fs::remove_file(out.with_extension("hashes"));
    true
}

pub fn run_batch(prop: &Prop, batch: &Batch, tier: &str, seed: u64, workers: usize, n_runs: u64) -> BatchAgg {
    let t0 = Instant::now();
    let dir = run_dir();
    let mut agg = BatchAgg::default();
    let chunk = (n_runs / (workers as u64 * 6)).clamp(1, 25_000);
    let mut pending: Vec<(u64, u64)> = Vec::new();
    let mut lo = 0;
    while lo < n_runs {
        let hi = (lo + chunk).min(n_runs);
        pending.push((lo, hi));
        lo = hi;
    }
    pending.reverse();
    let mut jobs: Vec<Job> = Vec::new();
    let mut serial = 0usize;
    let hang_after = hang_limit();
    loop {
        // enough evidence that the property is broken: do not spend the whole budget on it
        // (a hanging run costs a full time-out each)
        if agg.violations.len() >= 48 && !pending.is_empty() {
            pending.clear();
        }
        while jobs.len() < workers {
            let Some((lo, hi)) = pending.pop() else { break };
            serial += 1;
            jobs.push(spawn_worker(prop.id, batch.name, tier, seed, lo, hi, &dir, serial));
        }
        if jobs.is_empty() {
            break;
        }
        std::thread::sleep(Duration::from_millis(4));
        let mut i = 0;
        while i < jobs.len() {
            let m = read_marker(&jobs[i].marker);
            if m != jobs[i].last_marker {
                jobs[i].last_marker = m;
                jobs[i].last_change = Instant::now();
            }
            let status = jobs[i].child.try_wait().ok().flatten();
            let hung = status.is_none() && jobs[i].last_change.elapsed() > hang_after;
            if hung {
                let _ = jobs[i].child.kill();
                let _ = jobs[i].child.wait();
            }
            if status.is_none() && !hung {
                i += 1;
                continue;
            }
            let mut job = jobs.swap_remove(i);
            let mut stderr = String::new();
            if let Some(mut e) = job.child.stderr.take() {
                let _ = e.read_to_string(&mut stderr);
            }
            let ok = !hung && status.map(|s| s.success()).unwrap_or(false);
            if ok && absorb(&mut agg, &job.out) {
                let _ = std::fs::remove_file(&job.marker);
                continue;
            }
            // abnormal end: the marker names the run that was executing
            let m = read_marker(&job.marker);
            let _ = std::fs::remove_file(&job.marker);
            if m == 0 || m - 1 < job.lo || m - 1 >= job.hi {
                agg.harness_errors.push(format!(
                    "worker [{}, {}) ended abnormally ({:?}) outside a run; stderr: {}",
                    job.lo,
                    job.hi,
                    status,
                    stderr.lines().last().unwrap_or("")
                ));
                continue;
            }
            let idx = m - 1;
            let cause = if hung {
                "hang".to_string()
            } else {
                match status.and_then(|s| s.signal()) {
                    Some(libc::SIGSEGV) | Some(libc::SIGBUS) => "fatal:stack-overflow-or-segv".to_string(),
                    Some(libc::SIGABRT) => {
                        if stderr.contains("stack overflow") || stderr.contains("overflowed its stack") {
                            "fatal:stack-overflow-or-segv".to_string()
                        } else if stderr.contains("memory allocation") || stderr.contains("alloc-budget") {
                            "fatal:allocation".to_string()
                        } else {
                            "fatal:abort".to_string()
                        }
                    }
                    Some(libc::SIGKILL) => "fatal:killed".to_string(),
                    other => format!("fatal:exit-{:?}-{:?}", status.and_then(|s| s.code()), other),
                }
            };
            agg.violations.push((idx, cause, format!("worker process died in run {idx}; stderr tail: {}", tail(&stderr, 300))));
            // runs before idx in this chunk are lost with the worker: redo them and the rest
            if job.lo < idx {
                pending.push((job.lo, idx));
            }
            if idx + 1 < job.hi {
                pending.push((idx + 1, job.hi));
            }
        }
    }
    let _ = std::fs::remove_dir_all(&dir);
    agg.wall_s = t0.elapsed().as_secs_f64();
    agg
}

fn tail(s: &str, n: usize) -> String {
    let t: String = s.chars().rev().take(n).collect::<Vec<_>>().into_iter().rev().collect();
    t.replace('\n', " | ")
}

// ------------------------------------------------------------------ minimisation & replay

/// Execute one trace in a child process (needed when the violation kills the process).
fn exec_trace_subprocess(prop: &str, batch: &str, tier: &str, t: &Trace) -> Option<(String, Trace)> {
    let dir = run_dir();
    let f = dir.join(format!("cand-{}.json", std::process::id()));
    std::fs::write(&f, serde_json::to_vec(&trace_to_json(t)).unwrap()).ok()?;
    let exe = std::env::current_exe().ok()?;
    let mut child = Command::new(exe)
        .args(["exec-trace", prop, batch, tier])
        .arg(&f)
        .stdin(Stdio::null())
        .stdout(Stdio::piped())
        .stderr(Stdio::piped())
        .spawn()
        .ok()?;
    let t0 = Instant::now();
    let status = loop {
        if let Ok(Some(s)) = child.try_wait() {
            break Some(s);
        }
        if t0.elapsed() > hang_limit() {
            let _ = child.kill();
            let _ = child.wait();
            break None;
        }
        std::thread::sleep(Duration::from_millis(2));
    };
    let mut so = String::new();
    let mut se = String::new();
    if let Some(mut o) = child.stdout.take() {
        let _ = o.read_to_string(&mut so);
    }
    if let Some(mut e) = child.stderr.take() {
        let _ = e.read_to_string(&mut se);
    }
    match status {
        None => Some(("hang".to_string(), t.clone())),
        Some(s) if s.code() == Some(0) => None,
        Some(s) if s.code() == Some(1) => {
            let v: Value = serde_json::from_str(so.lines().last().unwrap_or("{}")).ok()?;
            Some((v["class"].as_str()?.to_string(), trace_from_json(&v["trace"])))
        }
        Some(s) => {
            let class = match s.signal() {
                Some(libc::SIGSEGV) | Some(libc::SIGBUS) => "fatal:stack-overflow-or-segv",
                Some(libc::SIGABRT) if se.contains("stack overflow") || se.contains("overflowed its stack") => "fatal:stack-overflow-or-segv",
                Some(libc::SIGABRT) if se.contains("memory allocation") || se.contains("alloc-budget") => "fatal:allocation",
                Some(libc::SIGABRT) => "fatal:abort",
                _ => return None,
            };
            Some((class.to_string(), t.clone()))
        }
    }
}

/// `exec-trace <prop> <batch> <tier> <tracefile>`: exit 0 clean, 1 violation (JSON on stdout).
pub fn exec_trace_main(args: &[String]) -> i32 {
    set_tier(&args[2]);
    let prop = crate::props::find(&args[0]).expect("prop");
    let batch = prop.batches.iter().find(|b| b.name == args[1]).expect("batch");
    let t = trace_from_json(&serde_json::from_slice(&std::fs::read(&args[3]).unwrap()).unwrap());
    let scenario = batch.scenario;
    let r = std::thread::Builder::new()
        .stack_size(16 << 20)
        .spawn(move || {
            runner::install_panic_hook();
            runner::run_trace(scenario, &t, false)
        })
        .unwrap()
        .join()
        .unwrap();
    if let Some(e) = r.harness_error {
        eprintln!("{e}");
        return 2;
    }
    match r.violation {
        None => 0,
        Some(v) => {
            println!("{}", json!({"class": v.class, "detail": v.detail, "trace": trace_to_json(&trim(r.trace))}));
            1
        }
    }
}

fn run_in_thread(scenario: Scenario, t: &Trace, log: bool) -> RunResult {
    let t = t.clone();
    std::thread::Builder::new()
        .stack_size(16 << 20)
        .spawn(move || {
            runner::install_panic_hook();
            runner::run_trace(scenario, &t, log)
        })
        .unwrap()
        .join()
        .unwrap()
}

pub struct Minimised {
    pub trace: Trace,
    pub class: String,
    pub detail: String,
    pub log: Vec<String>,
    pub executions: u64,
}

pub fn minimise(prop: &Prop, batch: &Batch, tier: &str, seed: u64, idx: u64, class: &str) -> Option<Minimised> {
    let fatal = class.starts_with("fatal:") || class == "hang";
    if fatal {
        return minimise_fatal(prop, batch, tier, seed, idx, class);
    }
    // first: the recorded trace of the original run
    let start: Trace = {
        let r = {
            let sc = batch.scenario;
            let s = seed_for(seed, prop.id, batch.name, idx);
            std::thread::Builder::new()
                .stack_size(16 << 20)
                .spawn(move || {
                    runner::install_panic_hook();
                    runner::run_seed(sc, s, false)
                })
                .unwrap()
                .join()
                .unwrap()
        };
        match r.violation {
            Some(v) if v.class == class => trim(r.trace),
            _ => return None,
        }
    };
    let scenario = batch.scenario;
    let mut test = |cand: &Trace| -> Option<Trace> {
        let r = run_in_thread(scenario, cand, false);
        match r.violation {
            Some(v) if v.class == class => Some(trim(r.trace)),
            _ => None,
        }
    };
    let max_exec: u64 = std::env::var("VERIF_SHRINK_EXEC").ok().and_then(|s| s.parse().ok()).unwrap_or(1500);
    let (best, st) = simcore::shrink::shrink(start, &mut test, max_exec);
    let fin = run_in_thread(scenario, &best, true);
    let v = fin.violation?;
    let _ = tier;
    Some(Minimised { trace: trim(fin.trace), class: v.class, detail: v.detail, log: fin.log, executions: st.executions })
}

/// A violation that kills the process: recover the choices of the fatal run from a child that
/// writes every draw to a file as it happens, then delta-debug with one child process per candidate.
fn minimise_fatal(prop: &Prop, batch: &Batch, tier: &str, seed: u64, idx: u64, class: &str) -> Option<Minimised> {
    let dir = run_dir();
    let tf = dir.join(format!("fatal-{}.draws", idx));
    let exe = std::env::current_exe().ok()?;
    let mut child = Command::new(exe)
        .args(["record-seed", prop.id, batch.name, tier, &seed_for(seed, prop.id, batch.name, idx).to_string()])
        .arg(&tf)
        .stdin(Stdio::null())
        .stdout(Stdio::null())
        .stderr(Stdio::null())
        .spawn()
        .ok()?;
    let t0 = Instant::now();
    loop {
        if let Ok(Some(_)) = child.try_wait() {
            break;
        }
        if t0.elapsed() > hang_limit() + Duration::from_secs(5) {
            let _ = child.kill();
            let _ = child.wait();
            break;
        }
        std::thread::sleep(Duration::from_millis(5));
    }
    let raw = std::fs::read(&tf).unwrap_or_default();
    let _ = std::fs::remove_file(&tf);
    let mut start = Trace::default();
    for rec in raw.chunks_exact(9) {
        if (rec[0] as usize) < 4 {
            start.v[rec[0] as usize].push(u64::from_le_bytes(rec[1..9].try_into().unwrap()));
        }
    }
    let start = trim(start);
    // does the recovered trace reproduce the death?
    match exec_trace_subprocess(prop.id, batch.name, tier, &start) {
        Some((c, _)) if c == class => {}
        _ => return Some(Minimised { trace: Trace::default(), class: class.to_string(), detail: String::new(), log: vec![], executions: 0 }),
    }
    let (p, b) = (prop.id, batch.name);
    let mut test = |cand: &Trace| -> Option<Trace> {
        match exec_trace_subprocess(p, b, tier, cand) {
            Some((c, t)) if c == class => Some(trim(t)),
            _ => None,
        }
    };
    // every candidate that still hangs costs a full time-out: a hang is reported with its unshrunk trace
    let max_exec: u64 = if class == "hang" { 0 } else { std::env::var("VERIF_SHRINK_EXEC_FATAL").ok().and_then(|s| s.parse().ok()).unwrap_or(400) };
    let (best, st) = simcore::shrink::shrink(start, &mut test, max_exec);
    Some(Minimised { trace: best, class: class.to_string(), detail: String::new(), log: vec!["(process-killing violation: the event log ends with the process)".into()], executions: st.executions })
}

pub fn write_replay(prop: &Prop, batch: &Batch, tier: &str, seed: u64, idx: u64, m: &Minimised) -> PathBuf {
    let dir = verif_root().join("replays");
    let _ = std::fs::create_dir_all(&dir);
    let safe: String = m.class.chars().map(|c| if c.is_ascii_alphanumeric() || c == '-' { c } else { '_' }).collect();
    let p = dir.join(format!("{}-{}-{}-{}.json", prop.id, batch.name, safe, seed_for(seed, prop.id, batch.name, idx) % 1_000_000_007));
    let log_text = m.log.join("\n");
    let fatal = m.class.starts_with("fatal:") || m.class == "hang";
    let v = json!({
        "property": prop.id, "batch": batch.name, "tier": tier, "verif_seed": seed, "run_index": idx,
        "run_seed": seed_for(seed, prop.id, batch.name, idx),
        "mode": if fatal && m.trace.total_len() == 0 { "seed" } else if fatal { "trace-subprocess" } else { "trace" },
        "class": m.class, "detail": m.detail,
        "trace": trace_to_json(&m.trace),
        "shrink_executions": m.executions,
        "log_sha256": simcore::sha256_hex(log_text.as_bytes()),
        "log": m.log,
    });
    std::fs::write(&p, serde_json::to_vec_pretty(&v).unwrap()).unwrap();
    p
}

/// `replay <file>`: exit 1 + VIOLATION line when the recorded violation reproduces
/// exactly (same class, same event log), 2 otherwise.
pub fn replay_main(path: &str) -> i32 {
    let v: Value = match std::fs::read(path).ok().and_then(|b| serde_json::from_slice(&b).ok()) {
        Some(v) => v,
        None => {
            eprintln!("cannot read replay file {path}");
            return 2;
        }
    };
    let prop_id = v["property"].as_str().unwrap_or("");
    let tier = v["tier"].as_str().unwrap_or("quick");
    set_tier(tier);
    let Some(prop) = crate::props::find(prop_id) else { return 2 };
    let Some(batch) = prop.batches.iter().find(|b| Some(b.name) == v["batch"].as_str()) else { return 2 };
    let class = v["class"].as_str().unwrap_or("");
    if v["mode"].as_str() == Some("seed") {
        // process-killing violation: re-run the seed in a child
        let exe = std::env::current_exe().unwrap();
        let idx = v["run_index"].as_u64().unwrap_or(0);
        let seed = v["verif_seed"].as_u64().unwrap_or(0);
        let dir = run_dir();
        let out = dir.join("replay.json");
        let marker = dir.join("replay.marker");
        let child = Command::new(exe)
            .args(["worker", prop.id, batch.name, tier, &seed.to_string(), &idx.to_string(), &(idx + 1).to_string()])
            .arg(&out)
            .arg(&marker)
            .stdin(Stdio::null())
            .stdout(Stdio::null())
            .stderr(Stdio::piped())
            .spawn();
        let Ok(mut child) = child else { return 2 };
        let limit = hang_limit() + Duration::from_secs(5);
        let t0 = Instant::now();
        let status = loop {
            if let Ok(Some(s)) = child.try_wait() {
                break Some(s);
            }
            if t0.elapsed() > limit {
                let _ = child.kill();
                let _ = child.wait();
                break None;
            }
            std::thread::sleep(Duration::from_millis(10));
        };
        let mut se = String::new();
        if let Some(mut e) = child.stderr.take() {
            let _ = e.read_to_string(&mut se);
        }
        let _ = std::fs::remove_dir_all(&dir);
        return match status {
            None if class == "hang" => {
                println!("reproduced: hang (no progress within {:?})", limit);
                println!("VIOLATION property={} replay={}", prop.id, path);
                1
            }
            Some(s) if !s.success() && class != "hang" => {
                println!("reproduced: {class} ({:?}); stderr tail: {}", s, tail(&se, 200));
                println!("VIOLATION property={} replay={}", prop.id, path);
                1
            }
            _ => {
                eprintln!("did not reproduce");
                2
            }
        };
    }
    let t = trace_from_json(&v["trace"]);
    if v["mode"].as_str() == Some("trace-subprocess") {
        // process-killing violation with a minimised trace: execute it in a child
        return match exec_trace_subprocess(prop.id, batch.name, tier, &t) {
            Some((c, _)) if c == class => {
                println!("reproduced: {class} (child process died executing the minimised trace)");
                println!("VIOLATION property={} replay={}", prop.id, path);
                1
            }
            other => {
                eprintln!("did not reproduce: got {:?}", other.map(|x| x.0));
                2
            }
        };
    }
    let r = run_in_thread(batch.scenario, &t, true);
    match r.violation {
        Some(viol) if viol.class == class => {
            let sha = simcore::sha256_hex(r.log.join("\n").as_bytes());
            if Some(sha.as_str()) != v["log_sha256"].as_str() {
                eprintln!("violation class reproduced but the event log differs (harness nondeterminism)");
                return 2;
            }
            println!("reproduced: {} :: {}", viol.class, viol.detail);
            println!("VIOLATION property={} replay={}", prop.id, path);
            1
        }
        other => {
            eprintln!("did not reproduce: got {:?}", other.map(|x| x.class));
            2
        }
    }
}

// ------------------------------------------------------------------ known findings

#[derive(Clone, Debug)]
pub struct KnownFinding {
    pub property: String,
    pub sig: String,
    pub text: String,
}

pub fn load_known() -> Vec<KnownFinding> {
    let p = verif_root().join("KNOWN_FINDINGS.txt");
    let mut out = Vec::new();
    if let Ok(s) = std::fs::read_to_string(p) {
        for line in s.lines() {
            let line = line.trim();
            if let Some(rest) = line.strip_prefix("open:") {
                let mut property = String::new();
                let mut sig = String::new();
                for tok in rest.split_whitespace() {
                    if let Some(v) = tok.strip_prefix("property=") {
                        property = v.to_string();
                    } else if let Some(v) = tok.strip_prefix("sig=") {
                        sig = v.to_string();
                    }
                }
                out.push(KnownFinding { property, sig, text: rest.trim().to_string() });
            }
        }
    }
    out
}

// ------------------------------------------------------------------ the check command

pub fn check_main(prop_id: &str, tier: &str) -> i32 {
    let t0 = Instant::now();
    set_tier(tier);
    let Some(prop) = crate::props::find(prop_id) else {
        eprintln!("unknown property {prop_id}");
        return 2;
    };
    let seed: u64 = std::env::var("VERIF_SEED").ok().and_then(|s| s.parse().ok()).unwrap_or(DEFAULT_SEED);
    let workers: usize = std::env::var("VERIF_WORKERS")
        .ok()
        .and_then(|s| s.parse().ok())
        .unwrap_or_else(|| std::thread::available_parallelism().map(|n| n.get()).unwrap_or(4));
    let scale: f64 = std::env::var("VERIF_RUNS_SCALE").ok().and_then(|s| s.parse().ok()).unwrap_or(1.0);
    println!("VERIF_SEED={seed} property={} tier={tier} workers={workers}", prop.id);
    let known = load_known();

    let mut aggs: Vec<(usize, BatchAgg)> = Vec::new();
    let mut exit = 0;
    let mut violation_lines = Vec::new();
    for (bi, batch) in prop.batches.iter().enumerate() {
        let n = ((if tier == "thorough" { batch.thorough } else { batch.quick }) as f64 * scale).ceil().max(1.0) as u64;
        let agg = run_batch(&prop, batch, tier, seed, workers, n);
        println!(
            "batch {}: {} runs in {:.1}s ({:.0} runs/h), {} events, {} distinct non-trivial cases, {} violations",
            batch.name,
            agg.runs,
            agg.wall_s,
            agg.runs as f64 / agg.wall_s.max(1e-9) * 3600.0,
            agg.events,
            agg.distinct.len(),
            agg.violations.len()
        );
        if !agg.harness_errors.is_empty() {
            for e in agg.harness_errors.iter().take(5) {
                eprintln!("HARNESS-ERROR {e}");
            }
            exit = 2;
        }
        // one minimised replay per violation class (first occurrence by run index)
        let mut by_class: BTreeMap<String, (u64, String)> = BTreeMap::new();
        let mut v = agg.violations.clone();
        v.sort();
        for (idx, class, detail) in v {
            by_class.entry(class).or_insert((idx, detail));
        }
        for (class, (idx, detail)) in by_class.iter().take(4) {
            match minimise(&prop, batch, tier, seed, *idx, class) {
                Some(mut m) => {
                    if m.detail.is_empty() {
                        m.detail = detail.clone();
                    }
                    let path = write_replay(&prop, batch, tier, seed, *idx, &m);
                    // the replay must fail the same way in a fresh process before anything is reported
                    let st = Command::new(std::env::current_exe().unwrap()).arg("replay").arg(&path).output();
                    match st {
                        Ok(o) if o.status.code() == Some(1) => {
                            println!("violation class {class} (run {idx}, minimised in {} executions): {}", m.executions, m.detail);
                            violation_lines.push(format!("VIOLATION property={} replay={}", prop.id, path.display()));
                            if exit == 0 {
                                exit = 1;
                            }
                        }
                        other => {
                            eprintln!("HARNESS-ERROR replay of {} did not reproduce in a fresh process: {:?}", path.display(), other.map(|o| o.status));
                            exit = 2;
                        }
                    }
                }
                None => {
                    eprintln!("HARNESS-ERROR violation {class} of run {idx} did not reproduce from its seed: {detail}");
                    exit = 2;
                }
            }
        }
        aggs.push((bi, agg));
    }
    // known findings: deterministic probes
    let mut known_lines = Vec::new();
    for k in known.iter().filter(|k| k.property == prop.id) {
        match crate::known::probe(&k.sig) {
            Some(true) => known_lines.push(format!("KNOWN-FINDING: {}", k.text)),
            Some(false) => println!("note: listed finding {} no longer reproduces", k.sig),
            None => {
                eprintln!("HARNESS-ERROR KNOWN_FINDINGS.txt names unknown signature {}", k.sig);
                exit = 2;
            }
        }
    }
    for l in &known_lines {
        println!("{l}");
    }
    for l in &violation_lines {
        println!("{l}");
    }
    crate::evidence::write(&prop, tier, seed, &aggs, violation_lines.len(), &known_lines, t0.elapsed().as_secs_f64());
    if exit == 2 {
        // harness errors are never reported as property violations
        return 2;
    }
    exit
}
