//! Self-test of the reference writer (`pdfmodel::refwriter`) against the lopdf reader.
//!
//! For every seed and freedom: random history -> `write_history` -> load every prefix with
//! lopdf -> compare with `expect[i]`. A mismatch is attributed to a suspected lopdf defect
//! only if the same seed passes once the one legal construct in question is avoided
//! (`refwriter::AVOID`, same draws); anything else is reported as UNEXPLAINED and fails the run.
//!
//!   refwriter_selftest [--seeds N] [--from A] [--freedom F] [--strict-length] [--raw-cr]
//!                      [--dump DIR] [--verbose]
//! `--dump DIR` also writes every file plus its expected model (JSON) for an external checker.

#![allow(dead_code)]

#[path = "../variants.rs"]
mod variants;

use pdfmodel::refwriter::*;
use pdfmodel::{dict_get, dict_set, same_doc, MDoc, MObj};
use simcore::{Ctx, Stream::W};
use std::collections::BTreeMap;
use std::sync::atomic::Ordering;

struct Case {
    ctx: Ctx,
    revs: Vec<Revision>,
    opts: WriterOpts,
}

/// One random history; everything is drawn from the seed's W stream.
fn build_case(seed: u64, freedom: u8, raw_cr: bool) -> Case {
    let ctx = Ctx::from_seed(simcore::mix(seed, 0xAB00 + freedom as u64));
    let (doc, _cfg) = pdfmodel::gen::gen_doc(&ctx);
    let mut revs = vec![Revision { objects: doc.objects.clone(), trailer: doc.trailer.clone() }];
    let mut known: Vec<(u32, u16)> = doc.objects.keys().copied().collect();
    let extra = if seed % 3 == 0 { 0 } else { 1 + ctx.draw(W, 3, "t-revisions") as usize };
    for _ in 0..extra {
        // material for the update: objects of a second random document, re-keyed
        let (d2, _) = pdfmodel::gen::gen_doc(&ctx);
        let mut objects = BTreeMap::new();
        let take = 1 + ctx.draw(W, 8, "t-update-n") as usize;
        for (id2, o) in d2.objects.into_iter().take(take) {
            let id = if !known.is_empty() && ctx.chance(W, 2, 3, "t-replace") {
                known[ctx.draw(W, known.len() as u64, "t-replace-which") as usize]
            } else {
                let top = known.iter().map(|k| k.0).max().unwrap_or(0);
                (top + 1 + ctx.draw(W, 5, "t-new-gap") as u32, id2.1)
            };
            if !known.contains(&id) {
                known.push(id);
            }
            objects.insert(id, o);
        }
        revs.push(Revision { objects, trailer: d2.trailer });
    }
    let mut opts = draw_opts(&ctx, revs.len(), &doc.version, &doc.binary_mark);
    opts.freedom = freedom;
    opts.raw_cr_eol = raw_cr;
    if seed % 7 == 3 {
        // hand-mixed styles (draw_opts never mixes)
        for s in opts.styles.iter_mut() {
            *s = if ctx.chance(W, 1, 2, "t-style") { XrefStyle::Stream } else { XrefStyle::Table };
        }
    }
    Case { ctx, revs, opts }
}

/// lopdf resolves an indirect `Length` while loading and stores the integer in the stream
/// dictionary. Unless `--strict-length`, the expectation is rewritten the same way.
fn resolve_lengths(exp: &MDoc, got: &MDoc, n_resolved: &mut u64) -> MDoc {
    let mut out = exp.clone();
    for (id, o) in out.objects.iter_mut() {
        if let MObj::Stream(d, _) = o {
            if let Some(MObj::Ref(n, g)) = dict_get(d, b"Length").cloned() {
                let direct_in_got =
                    matches!(got.objects.get(id), Some(MObj::Stream(gd, _)) if matches!(dict_get(gd, b"Length"), Some(MObj::Int(_))));
                if let (true, Some(MObj::Int(len))) = (direct_in_got, exp.objects.get(&(n, g))) {
                    dict_set(d, b"Length", MObj::Int(*len));
                    *n_resolved += 1;
                }
            }
        }
    }
    out
}

/// Write the case and check every prefix. Ok(bytes) or the first problem.
fn run_case(c: &Case, strict_length: bool, n_resolved: &mut u64) -> Result<Written, String> {
    let w = write_history(&c.ctx, &c.revs, &c.opts);
    if w.expect.len() != c.revs.len() || w.layout.revision_ends.len() != c.revs.len() {
        return Err("writer: wrong number of revisions in the result".into());
    }
    for (i, &end) in w.layout.revision_ends.iter().enumerate() {
        let bytes = &w.bytes[..end];
        let loaded = std::panic::catch_unwind(|| lopdf_sim::Document::load_mem(bytes));
        let doc = match loaded {
            Err(_) => return Err(format!("prefix {}: lopdf PANIC while loading", i)),
            Ok(Err(e)) => return Err(format!("prefix {}: load error {:?}", i, e)),
            Ok(Ok(d)) => d,
        };
        let got = variants::sim::from_doc(&doc);
        let exp = if strict_length { w.expect[i].clone() } else { resolve_lengths(&w.expect[i], &got, n_resolved) };
        let st = &w.structural_ids[i];
        same_doc(&exp, &got, &|id, _| st.contains(&id.0)).map_err(|(class, detail)| format!("prefix {}: {}: {}", i, class, detail))?;
        if got.max_id < exp.max_id {
            return Err(format!("prefix {}: max_id {} < expected {}", i, got.max_id, exp.max_id));
        }
        if got.xref_stream != exp.xref_stream {
            return Err(format!("prefix {}: xref_stream flag {} expected {}", i, got.xref_stream, exp.xref_stream));
        }
    }
    Ok(w)
}

fn json_obj(o: &MObj) -> serde_json::Value {
    use serde_json::json;
    let hex = |b: &[u8]| b.iter().map(|x| format!("{:02x}", x)).collect::<String>();
    let jd = |d: &pdfmodel::MDict| serde_json::Value::Array(d.iter().map(|(k, v)| json!([hex(k), json_obj(v)])).collect());
    match o {
        MObj::Null => json!({"t": "null"}),
        MObj::Bool(b) => json!({"t": "bool", "v": b}),
        MObj::Int(i) => json!({"t": "int", "v": i.to_string()}),
        MObj::Real(r) => json!({"t": "real", "bits": r.to_bits()}),
        MObj::Name(n) => json!({"t": "name", "v": hex(n)}),
        MObj::Str(s, h) => json!({"t": "str", "v": hex(s), "hex": h}),
        MObj::Array(a) => json!({"t": "array", "v": a.iter().map(json_obj).collect::<Vec<_>>()}),
        MObj::Dict(d) => json!({"t": "dict", "v": jd(d)}),
        MObj::Stream(d, b) => json!({"t": "stream", "v": jd(d), "body": hex(b)}),
        MObj::Ref(n, g) => json!({"t": "ref", "n": n, "g": g}),
    }
}

fn dump(dir: &str, seed: u64, f: u8, c: &Case, w: &Written) {
    use serde_json::json;
    let _ = std::fs::create_dir_all(dir);
    let stem = format!("{}/f{}_s{}", dir, f, seed);
    std::fs::write(format!("{}.pdf", stem), &w.bytes).unwrap();
    let revs: Vec<_> = w
        .expect
        .iter()
        .enumerate()
        .map(|(i, e)| {
            json!({
                "end": w.layout.revision_ends[i],
                "version": e.version,
                "max_id": e.max_id,
                "xref_stream": e.xref_stream,
                "structural": w.structural_ids[i],
                "trailer": json_obj(&MObj::Dict(e.trailer.clone())),
                "objects": e.objects.iter().map(|(id, o)| json!([id.0, id.1, json_obj(o)])).collect::<Vec<_>>(),
            })
        })
        .collect();
    let j = json!({"leading_junk": c.opts.leading_junk, "revisions": revs});
    std::fs::write(format!("{}.json", stem), serde_json::to_vec(&j).unwrap()).unwrap();
}

fn main() {
    let args: Vec<String> = std::env::args().skip(1).collect();
    let val = |k: &str| args.iter().position(|a| a == k).and_then(|i| args.get(i + 1)).cloned();
    let flag = |k: &str| args.iter().any(|a| a == k);
    let n_seeds: u64 = val("--seeds").map(|v| v.parse().unwrap()).unwrap_or(3000);
    let from: u64 = val("--from").map(|v| v.parse().unwrap()).unwrap_or(0);
    let freedoms: Vec<u8> = val("--freedom").map(|v| vec![v.parse().unwrap()]).unwrap_or(vec![0, 1, 2]);
    let (strict_length, raw_cr, verbose) = (flag("--strict-length"), flag("--raw-cr"), flag("--verbose"));
    let dump_dir = val("--dump");
    std::panic::set_hook(Box::new(|_| {})); // panics of the reader are caught and reported per case

    // (mask, name) of the constructs a failing seed is retried without
    let masks: [(u32, &str); 3] = [
        (AVOID_PNG_AVERAGE, "png-average-predictor"),
        (AVOID_DUP_IN_OBJSTM, "same-number-in-objstm-of-two-revisions"),
        (AVOID_PNG_AVERAGE | AVOID_DUP_IN_OBJSTM, "png-average + same-number-in-two-objstm"),
    ];
    let mut totals: BTreeMap<&'static str, u64> = BTreeMap::new();
    let mut classes: BTreeMap<String, Vec<(u8, u64)>> = BTreeMap::new();
    let (mut passed, mut unexplained, mut resolved, mut files, mut bytes_total) = (0u64, 0u64, 0u64, 0u64, 0u64);
    for &f in &freedoms {
        for seed in from..from + n_seeds {
            AVOID.store(0, Ordering::Relaxed);
            let c = build_case(seed, f, raw_cr);
            let r = run_case(&c, strict_length, &mut resolved);
            for (k, v) in c.ctx.counters() {
                *totals.entry(k).or_insert(0) += v;
            }
            // determinism: the same seed gives the same bytes
            let again = build_case(seed, f, raw_cr);
            let w2 = write_history(&again.ctx, &again.revs, &again.opts);
            let c1 = build_case(seed, f, raw_cr);
            let w1 = write_history(&c1.ctx, &c1.revs, &c1.opts);
            if w1.bytes != w2.bytes {
                println!("UNEXPLAINED f={} seed={}: writer is not deterministic", f, seed);
                unexplained += 1;
            }
            files += 1;
            bytes_total += w1.bytes.len() as u64;
            if let Some(dir) = &dump_dir {
                dump(dir, seed, f, &c1, &w1);
            }
            match r {
                Ok(_) => passed += 1,
                Err(msg) => {
                    let mut class = None;
                    for (mask, name) in masks {
                        AVOID.store(mask, Ordering::Relaxed);
                        let c2 = build_case(seed, f, raw_cr);
                        if run_case(&c2, strict_length, &mut 0).is_ok() {
                            class = Some(name);
                            break;
                        }
                    }
                    AVOID.store(0, Ordering::Relaxed);
                    match class {
                        Some(name) => {
                            if verbose {
                                println!("explained f={} seed={} [{}]: {}", f, seed, name, msg);
                            }
                            classes.entry(name.to_string()).or_default().push((f, seed));
                        }
                        None => {
                            println!("UNEXPLAINED f={} seed={}: {}", f, seed, msg);
                            unexplained += 1;
                        }
                    }
                }
            }
        }
    }
    println!("--- probe counters (sum over {} files, {} bytes)", files, bytes_total);
    for (k, v) in &totals {
        println!("{:45} {}", k, v);
    }
    println!("--- results");
    println!("passed: {}", passed);
    println!("indirect Length resolved by the reader (tolerated unless --strict-length): {}", resolved);
    for (name, v) in &classes {
        let show: Vec<String> = v.iter().take(12).map(|(f, s)| format!("f{}/{}", f, s)).collect();
        println!("suspected reader defect [{}]: {} cases, e.g. {}", name, v.len(), show.join(" "));
    }
    println!("unexplained: {}", unexplained);
    std::process::exit(if unexplained == 0 { 0 } else { 1 });
}
