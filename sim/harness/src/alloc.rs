//! Counting allocator (pass-through to the system allocator): live bytes, peak
//! and the largest single request, so that C04 can check that memory use stays
//! related to the input size. A request above the hard cap fails (the process
//! then aborts with "memory allocation of N bytes failed", which the driver
//! classifies as a fatal allocation violation of the run that was executing).
//!
//! Every allocation is also reported to the baton scheduler (`alloc_point`): under Mode T with
//! allocation-point preemption a worker may be descheduled right there.

use std::alloc::{GlobalAlloc, Layout, System};
use std::sync::atomic::{AtomicUsize, Ordering::Relaxed};

pub struct Counting;

static LIVE: AtomicUsize = AtomicUsize::new(0);
static PEAK: AtomicUsize = AtomicUsize::new(0);
static MAX_REQ: AtomicUsize = AtomicUsize::new(0);
const HARD_CAP: usize = 3 << 30;

#[inline]
fn on_alloc(size: usize) {
    let live = LIVE.fetch_add(size, Relaxed) + size;
    PEAK.fetch_max(live, Relaxed);
    MAX_REQ.fetch_max(size, Relaxed);
}

unsafe impl GlobalAlloc for Counting {
    unsafe fn alloc(&self, l: Layout) -> *mut u8 {
        if l.size() > HARD_CAP {
            MAX_REQ.fetch_max(l.size(), Relaxed);
            return std::ptr::null_mut();
        }
        simhook::baton::alloc_point();
        let p = System.alloc(l);
        if !p.is_null() {
            on_alloc(l.size());
        }
        p
    }
    unsafe fn alloc_zeroed(&self, l: Layout) -> *mut u8 {
        if l.size() > HARD_CAP {
            MAX_REQ.fetch_max(l.size(), Relaxed);
            return std::ptr::null_mut();
        }
        simhook::baton::alloc_point();
        let p = System.alloc_zeroed(l);
        if !p.is_null() {
            on_alloc(l.size());
        }
        p
    }
    unsafe fn dealloc(&self, p: *mut u8, l: Layout) {
        LIVE.fetch_sub(l.size(), Relaxed);
        System.dealloc(p, l)
    }
    unsafe fn realloc(&self, p: *mut u8, l: Layout, new_size: usize) -> *mut u8 {
        if new_size > HARD_CAP {
            MAX_REQ.fetch_max(new_size, Relaxed);
            return std::ptr::null_mut();
        }
        simhook::baton::alloc_point();
        let q = System.realloc(p, l, new_size);
        if !q.is_null() {
            LIVE.fetch_sub(l.size(), Relaxed);
            on_alloc(new_size);
        }
        q
    }
}

#[derive(Clone, Copy, Debug)]
pub struct Snap {
    pub live: usize,
    pub peak: usize,
    pub max_request: usize,
}

pub fn snapshot() -> Snap {
    Snap { live: LIVE.load(Relaxed), peak: PEAK.load(Relaxed), max_request: MAX_REQ.load(Relaxed) }
}

pub fn reset_peak() {
    PEAK.store(LIVE.load(Relaxed), Relaxed);
    MAX_REQ.store(0, Relaxed);
}
