//! World B — files from a foreign producer, recovered under schedules: C02
//! (well-formed PDFs load to their content) and C08 (loading is deterministic
//! under every thread schedule). World C (C07, revision histories) shares the
//! history generator.

use crate::common::*;
use crate::runner::{guarded, RunOut, Violation};
use crate::variants::{real, seq, sim};
use pdfmodel::gen;
use pdfmodel::refwriter::{self, Revision, WriterOpts, Written, XrefStyle};
use pdfmodel::strict::{read_strict, StrictOpts};
use pdfmodel::{dict_get, MDoc, MObj};
use simcore::io::draw_benign_source;
use simcore::{Ctx, SchedPolicy, SimSource, Stream::S, Stream::W};
use std::collections::BTreeMap;

pub struct History {
    /// a deliberately heavy case (megabytes to inflate or parse): explored under fewer schedules
    pub heavy: bool,
    pub revisions: Vec<Revision>,
    pub opts: WriterOpts,
    pub written: Written,
}

/// Draw an abstract history (base + 0..max_updates update revisions) and have
/// the reference writer emit it.
pub fn gen_history(ctx: &Ctx, max_updates: usize, objstm_bias: bool, allow_junk: bool, allow_raw_cr: bool) -> History {
    let mut cfg = gen::draw_cfg(ctx);
    cfg.n_objects = cfg.n_objects.min(if objstm_bias { 30 } else { 60 });
    // rare class: one huge object stream (work splitting by pool size only shows on large index blocks)
    let big = objstm_bias && ctx.chance(W, 1, 16, "big-objstm");
    // rare class: object streams that inflate to hundreds of times the file size
    let bomb = objstm_bias && !big && ctx.chance(W, 1, 40, "compressible-objstm");
    if big {
        cfg.n_objects = 420 + ctx.draw(W, 300, "big-n") as usize;
        cfg.max_depth = 1;
        cfg.max_len = 4;
        cfg.id_layout = 0;
        ctx.count("big-object-stream-docs");
    }
    cfg.id_layout = cfg.id_layout.min(1) + if ctx.chance(W, 1, 6, "large-ids") { 1 } else { 0 }; // mostly dense/gapped
    if objstm_bias {
        // object streams hold non-stream, generation-0 objects
        cfg.nonzero_gen = false;
    }
    let mut g = gen::Gen::new(ctx, cfg);
    let m = g.gen_doc();
    let mut m = m;
    if bomb {
        // a handful of generation-0 objects holding very long runs of one byte: with Flate on the
        // containers the file stays a few KiB while the object streams inflate to megabytes
        let mut id = m.objects.keys().map(|k| k.0).max().unwrap_or(0) + 1;
        for _ in 0..4 + ctx.draw(W, 4, "bomb-objects") {
            let n = 300_000 + ctx.draw(W, 1_200_000, "bomb-len") as usize;
            m.objects.insert((id, 0), MObj::Str(vec![b'a' + ctx.draw(W, 20, "bomb-byte") as u8; n], false));
            id += 1;
        }
        m.max_id = m.max_id.max(id);
        ctx.count("compressible-objstm-docs");
    }
    // rare class: a large file (offsets whose middle and high bytes are non-zero: wide W fields,
    // predictor arithmetic on large byte values)
    if !objstm_bias && ctx.chance(W, 1, 12, "large-file") {
        let mut id = m.objects.keys().map(|k| k.0).max().unwrap_or(0) + 1;
        for _ in 0..2 + ctx.draw(W, 3, "large-streams") {
            let n = 20_000 + ctx.draw(W, 30_000, "large-stream-len") as usize;
            let mut x = simcore::Xoshiro::new(ctx.draw(W, 0, "large-stream-seed"));
            let body: Vec<u8> = (0..n).map(|_| x.next() as u8).collect();
            m.objects.insert((id, 0), MObj::Stream(vec![(b"Length".to_vec(), MObj::Int(n as i64))], body));
            id += 1;
        }
        m.max_id = m.max_id.max(id);
        ctx.count("large-file-docs");
    }
    let mut revisions = vec![Revision { objects: m.objects.clone(), trailer: pdfmodel::trailer_payload(&m.trailer) }];
    let n_updates = if max_updates == 0 { 0 } else { ctx.draw(W, max_updates as u64 + 1, "n-updates") as usize };
    let mut all_ids: Vec<(u32, u16)> = m.objects.keys().cloned().collect();
    let mut next_new = all_ids.iter().map(|i| i.0).max().unwrap_or(0) + 1;
    for _ in 0..n_updates {
        let mut objs = BTreeMap::new();
        let n_edits = 1 + ctx.draw(W, 5, "rev-edits") as usize;
        g.cfg.max_depth = g.cfg.max_depth.min(4);
        for _ in 0..n_edits {
            let o = g.gen_obj(0, !objstm_bias || ctx.chance(W, 1, 4, "rev-stream"));
            if ctx.chance(W, 2, 3, "rev-replace") && !all_ids.is_empty() {
                let id = all_ids[ctx.draw(W, all_ids.len() as u64, "rev-id") as usize];
                objs.insert(id, o);
            } else {
                let id = (next_new, 0);
                next_new += 1 + ctx.draw(W, 2, "rev-gap") as u32;
                all_ids.push(id);
                objs.insert(id, o);
            }
        }
        // trailer of an update: usually the same payload
        let trailer = revisions[0].trailer.clone();
        revisions.push(Revision { objects: objs, trailer });
    }
    let mut opts = refwriter::draw_opts(ctx, revisions.len(), &m.version, &m.binary_mark);
    if objstm_bias {
        opts.styles = vec![XrefStyle::Stream; revisions.len()];
        opts.object_streams = true;
    }
    if !allow_junk {
        opts.leading_junk = false;
    }
    if big || bomb {
        opts.freedom = 2;
    }
    if bomb {
        opts.force_structural_zlib = true;
    }
    // raw CR / CRLF inside literal strings: only C02 is about string syntax, and there the
    // construct is carved out while the finding is listed as open
    if !allow_raw_cr || crate::known::is_open("raw-cr-eol-in-literal-string") {
        opts.raw_cr_eol = false;
    }
    let written = refwriter::write_history(ctx, &revisions, &opts);
    if bomb {
        // reach probe: do the object streams of this file together inflate to more than 256 times its size,
        // spread over at least two containers?
        let bodies: Vec<usize> = written.layout.fields.iter().filter(|f| f.2 == refwriter::FieldKind::ObjStmBody).map(|f| f.1 - f.0).collect();
        let plain: usize = revisions.iter().flat_map(|r| r.objects.values()).map(|o| if let MObj::Str(s, _) = o { s.len() } else { 0 }).sum();
        if bodies.len() >= 2 && plain > 256 * written.bytes.len() {
            ctx.count("compressible-objstm-docs-over-256x-in-2+-containers");
        }
    }
    History { heavy: bomb, revisions, opts, written }
}

/// What lopdf is expected to report for `expect`: rule R6 — a stream whose
/// `Length` is an indirect reference comes back with the resolved integer.
pub fn expect_for_lopdf(e: &MDoc) -> MDoc {
    let mut m = e.clone();
    for (_, o) in m.objects.iter_mut() {
        if let MObj::Stream(d, body) = o {
            if matches!(dict_get(d, b"Length"), Some(MObj::Ref(..))) {
                pdfmodel::dict_set(d, b"Length", MObj::Int(body.len() as i64));
            }
        }
    }
    m
}

/// Keep the producer stub honest: the independent strict reader must accept
/// the file and recover what the writer claims it wrote. A disagreement is a
/// harness defect (exit 2), never a finding about lopdf.
pub fn selfcheck_written(h: &History, upto: usize) {
    let w = &h.written;
    let bytes = &w.bytes[..w.layout.revision_ends[upto]];
    let sd = read_strict(bytes, &StrictOpts { trusted_prefix: 0, allow_leading_junk: true, binary_comment_optional: true })
        .unwrap_or_else(|e| panic!("reference writer emitted a file the strict reader rejects (prefix {upto}): {e}"));
    let mut got = sd.doc.clone();
    got.trailer = pdfmodel::trailer_payload(&got.trailer);
    let mut exp = w.expect[upto].clone();
    exp.trailer = pdfmodel::trailer_payload(&exp.trailer);
    if let Err((c, e)) = pdfmodel::same_doc(&exp, &got, &|_, _| false) {
        panic!("strict reader and reference writer disagree on prefix {upto} ({c}): {e}");
    }
}

pub fn compare_loaded(h: &History, upto: usize, got: &MDoc, what: &str) -> Result<(), Violation> {
    let w = &h.written;
    let exp = expect_for_lopdf(&w.expect[upto]);
    let structural = &w.structural_ids[upto];
    let extra = |id: (u32, u16), o: &MObj| structural.contains(&id.0) && id.1 == 0 && (pdfmodel::is_xref_stream_obj(o) || pdfmodel::is_objstm_obj(o));
    pdfmodel::same_doc(&exp, got, &extra).map_err(|(c, e)| Violation::new(c, format!("{what}: {e}")))
}

/// C02: a well-formed file from the reference producer loads to its content,
/// whatever the read chunking and the loader schedule.
pub fn c02_foreign(ctx: &Ctx, out: &mut RunOut) -> Result<(), Violation> {
    let h = gen_history(ctx, 2, false, true, true);
    let last = h.revisions.len() - 1;
    selfcheck_written(&h, last);
    let bytes = &h.written.bytes;
    ctx.event("c02-image", bytes.len() as u64, simcore::fnv(bytes));
    dump_image("c02.pdf", bytes);
    let n_loads = if thorough() { 3 } else { 2 };
    for i in 0..n_loads {
        ctx.set_sched(match i {
            0 => SchedPolicy::Random,
            1 => SchedPolicy::Reverse,
            _ => SchedPolicy::InOrder,
        });
        let mut src = SimSource::new(ctx, bytes, draw_benign_source(ctx));
        let d = guarded("load_from", || sim::load_from(&mut src))?
            .map_err(|e| Violation::new("load-failed", format!("a well-formed file ({}) failed to load: {e}", describe(&h))))?;
        ctx.count_n("read-eintr-fired", src.eintr_fired);
        ctx.event("c02-loaded", i as u64, sim::full_digest(&d));
        compare_loaded(&h, last, &sim::from_doc(&d), &describe(&h))?;
    }
    ctx.set_sched(SchedPolicy::Random);
    let d = guarded("load_mem(seq)", || seq::load_mem(bytes))?
        .map_err(|e| Violation::new("load-failed", format!("sequential build failed to load a well-formed file ({}): {e}", describe(&h))))?;
    compare_loaded(&h, last, &seq::from_doc(&d), &format!("sequential reader, {}", describe(&h)))?;
    out.case_hash = simcore::fnv(bytes);
    out.nontrivial = !h.written.expect[last].objects.is_empty();
    out.sample = describe(&h);
    Ok(())
}

pub fn describe(h: &History) -> String {
    let l = &h.written.layout;
    format!(
        "{} bytes, {} revision(s), styles {:?}, freedom {}, {} object-stream containers, {} compressed objects{}",
        h.written.bytes.len(),
        h.revisions.len(),
        h.opts.styles,
        h.opts.freedom,
        l.objstm_containers.iter().map(|c| c.len()).sum::<usize>(),
        l.compressed.len(),
        if h.opts.leading_junk { ", leading junk" } else { "" }
    )
}

fn hot_spans(h: &History) -> Vec<(usize, usize)> {
    h.written.layout.fields.iter().map(|f| (f.0, f.1)).collect()
}

/// An *encrypted* file (empty user password, so the loader decrypts it on its own) that keeps objects in
/// object streams, several of which store the same object numbers without any of them being designated
/// by the cross-reference table. lopdf cannot save object streams, so the containers are written under
/// another type name which is patched in the saved bytes. Whatever the loader does after decrypting —
/// it unpacks the containers then — must not depend on the schedule.
fn c08_encrypted_objstm(ctx: &Ctx, out: &mut RunOut) -> Result<(), Violation> {
    use sim::lopdf::{dictionary, Document, EncryptionState, EncryptionVersion, Object, Permissions, Stream};
    let mut d = Document::with_version("1.5");
    let pages = d.new_object_id();
    let page = d.add_object(dictionary! { "Type" => "Page", "Parent" => pages });
    d.objects.insert(pages, Object::Dictionary(dictionary! { "Type" => "Pages", "Kids" => vec![page.into()], "Count" => 1 }));
    let cat = d.add_object(dictionary! { "Type" => "Catalog", "Pages" => pages });
    d.trailer.set("Root", cat);
    let id0: Vec<u8> = (0..16).map(|_| ctx.draw(W, 256, "id") as u8).collect();
    d.trailer.set("ID", Object::Array(vec![Object::string_literal(id0.clone()), Object::string_literal(id0)]));
    // some ordinary objects in front (work for the other workers)
    for i in 0..ctx.draw(W, 40, "plain-objects") {
        d.add_object(Object::Array(vec![Object::Integer(i as i64), Object::string_literal(format!("plain object {i}"))]));
    }
    let n_containers = 2 + ctx.draw(W, 12, "containers") as usize;
    let first_num = 1000 + ctx.draw(W, 50, "member-base") as u32;
    let n_members = 1 + ctx.draw(W, 6, "members") as u32;
    for c in 0..n_containers {
        let (mut index, mut body) = (String::new(), String::new());
        for k in 0..n_members {
            // not every container holds every number
            if ctx.chance(W, 1, 5, "member-absent") {
                continue;
            }
            index.push_str(&format!("{} {} ", first_num + k, body.len()));
            body.push_str(&format!("<</From {c} /Member {k}>> "));
        }
        let n = index.split_whitespace().count() / 2;
        let content = format!("{index}{body}").into_bytes();
        let st = Stream::new(dictionary! { "Type" => "ObjStX", "N" => n as i64, "First" => index.len() as i64 }, content);
        d.add_object(st);
    }
    let which = ctx.draw(W, 3, "enc-version");
    let state = {
        let for_state = d.clone();
        let v = match which {
            0 => EncryptionVersion::V1 { document: &for_state, owner_password: "owner", user_password: "", permissions: Permissions::all() },
            1 => EncryptionVersion::V2 { document: &for_state, owner_password: "owner", user_password: "", key_length: 128, permissions: Permissions::all() },
            _ => EncryptionVersion::V2 { document: &for_state, owner_password: "owner", user_password: "", key_length: 40, permissions: Permissions::all() },
        };
        guarded("EncryptionState::try_from", || EncryptionState::try_from(v))?
    };
    let Ok(state) = state else {
        out.sample = "encrypted object-stream file: state rejected".into();
        return Ok(());
    };
    if guarded("Document::encrypt", || d.encrypt(&state))?.is_err() {
        return Ok(());
    }
    let mut img = Vec::new();
    guarded("save_to", || d.save_to(&mut img))?.map_err(|e| Violation::new("healthy-save-failed", format!("encrypted base: {e}")))?;
    let mut patched = 0;
    let mut i = 0;
    while i + 6 <= img.len() {
        if &img[i..i + 6] == b"ObjStX" {
            img[i + 5] = b'm';
            patched += 1;
        }
        i += 1;
    }
    if patched == 0 {
        return Ok(());
    }
    ctx.count("encrypted-files-with-object-streams");
    ctx.event("c08-encrypted-objstm", img.len() as u64, simcore::fnv(&img));
    let reference = guarded("load_mem(seq)", || seq::load_outcome(&img))?;
    for i in 0..if thorough() { 16 } else { 8 } {
        ctx.set_sched(match i {
            0 => SchedPolicy::InOrder,
            1 => SchedPolicy::Reverse,
            2 => SchedPolicy::Rotate(1 + ctx.draw(S, 7, "rotate") as usize),
            _ => SchedPolicy::Random,
        });
        ctx.set_num_threads([1usize, 2, 3, 4, 8, 16][ctx.draw(S, 6, "pool-size") as usize]);
        if i >= 4 && ctx.chance(S, 1, 2, "mode-t") {
            ctx.set_mode_t(Some([2usize, 3, 4, 8][ctx.draw(S, 4, "mode-t-workers") as usize]));
        }
        let o = guarded("load_mem", || sim::load_outcome(&img))?;
        ctx.set_mode_t(None);
        if o != reference {
            return Err(Violation::new(
                "differs-from-sequential",
                format!("encrypted file with {n_containers} object streams storing the same {n_members} object numbers: schedule #{i} gives {} but the sequential build gives {}", show_outcome(&o), show_outcome(&reference)),
            ));
        }
    }
    ctx.set_sched(SchedPolicy::Random);
    out.case_hash = simcore::fnv(&img);
    out.nontrivial = true;
    out.sample = format!("encrypted file ({} bytes) with {n_containers} object streams storing the same object numbers", img.len());
    Ok(())
}

/// C08: the same bytes load to the same document (or the same error) under
/// every completion order of the parallel phase, for every simulated pool
/// size, and equal to the sequential build — for valid files and for their
/// fault-corrupted variants alike.
pub fn c08_schedules(ctx: &Ctx, out: &mut RunOut) -> Result<(), Violation> {
    for k in ["encrypted-files-with-object-streams", "rootless-histories-with-several-catalogs", "files-with-shared-container-length", "mode-t-loads", "mode-t-loads-with-allocation-preemption", "allocation-point-preemptions", "mode-t-loads-stalled-and-discarded", "files-with-all-orders-enumerated", "orders-enumerated-exhaustively", "baton-choice-at-contended-lock", "big-object-stream-docs", "image-fault-corrupted"] {
        ctx.count_n(k, 0); // registered so that a probe that never fires shows up as zero in the evidence
    }
    if ctx.chance(W, 1, 16, "encrypted-objstm-case") {
        return c08_encrypted_objstm(ctx, out);
    }
    let mut h = gen_history(ctx, 3, true, false, false);
    let last = h.revisions.len() - 1;
    selfcheck_written(&h, last);
    // a quarter of the cases: the same history written with deliberately wrong designations of
    // re-defined compressed objects (C08 is claimed for all bytes, not only valid files); this is
    // where the order among equally undesignated copies becomes observable
    if ctx.chance(W, 1, 4, "misdesignate") {
        h.opts.misdesignate = true;
        h.opts.freedom = h.opts.freedom.max(1);
        h.written = refwriter::write_history(ctx, &h.revisions, &h.opts);
        ctx.count("misdesignated-histories");
    }
    // an eighth of the cases: no /Root in any trailer, and several objects that call themselves /Type /Catalog
    // (a damaged file a reader may try to repair: whatever it does must not depend on who finishes first)
    if !h.heavy && ctx.chance(W, 1, 8, "rootless") {
        let mut id = h.revisions.iter().flat_map(|r| r.objects.keys()).map(|k| k.0).max().unwrap_or(0) + 1;
        for r in h.revisions.iter_mut() {
            r.trailer.retain(|(k, _)| k != b"Root");
        }
        for _ in 0..2 + ctx.draw(W, 3, "catalogs") {
            let at = ctx.draw(W, h.revisions.len() as u64, "catalog-revision") as usize;
            h.revisions[at].objects.insert((id, 0), MObj::Dict(vec![(b"Type".to_vec(), MObj::Name(b"Catalog".to_vec())), (b"Nr".to_vec(), MObj::Int(id as i64))]));
            id += 1 + ctx.draw(W, 3, "catalog-gap") as u32;
        }
        h.written = refwriter::write_history(ctx, &h.revisions, &h.opts);
        ctx.count("rootless-histories-with-several-catalogs");
    }
    let mut images: Vec<(Vec<u8>, &'static str)> = vec![(h.written.bytes.clone(), if h.opts.misdesignate { "misdesignated" } else { "valid" })];
    // fault-corrupted variants
    let n_faulted = if h.heavy { 0 } else if thorough() { 3 } else { 2 };
    let hot = hot_spans(&h);
    for _ in 0..n_faulted {
        let mut img = h.written.bytes.clone();
        let older = if last > 0 { Some(&h.written.bytes[..h.written.layout.revision_ends[last - 1]]) } else { None };
        let kind = simcore::disk::apply_fault(ctx, &mut img, older, &hot);
        images.push((img, kind));
    }
    let containers: Vec<u32> = h.written.layout.objstm_containers.iter().flatten().cloned().collect();
    let n_sched = if h.heavy { 4 } else if thorough() { 24 } else { 8 };
    // files in which an object-stream container shares its indirect Length with another stream: whatever
    // a loader keeps per Length object is touched by two closures; such files get extra Mode T loads,
    // all with allocation-point preemption
    let n_extra = if h.written.layout.container_length_shared > 0 && !h.heavy { if thorough() { 32 } else { 16 } } else { 0 };
    if n_extra > 0 {
        ctx.count("files-with-shared-container-length");
    }
    let mut distinct_orders = std::collections::BTreeSet::new();
    for (img, kind) in &images {
        ctx.event("c08-image", img.len() as u64, simcore::fnv(img));
        let reference = guarded("load_mem(seq)", || seq::load_outcome(img))?;
        let mut first_sim: Option<Result<u64, String>> = None;
        for i in 0..n_sched + n_extra {
            ctx.set_sched(match i {
                0 => SchedPolicy::InOrder,
                1 => SchedPolicy::Reverse,
                2 => SchedPolicy::Rotate(1 + ctx.draw(S, 7, "rotate") as usize),
                _ => SchedPolicy::Random,
            });
            ctx.set_num_threads([1usize, 2, 3, 4, 8, 16][ctx.draw(S, 6, "pool-size") as usize]);
            // Mode T for a share of the schedules: real threads under the baton scheduler, with the
            // reader's mutexes as scheduling points (hook H1)
            let mode_t = i >= n_sched || (i >= 3 && ctx.chance(S, 1, if thorough() { 2 } else { 4 }, "mode-t"));
            if mode_t {
                ctx.set_mode_t(Some([1usize, 2, 3, 4, 8, 16][ctx.draw(S, 6, "mode-t-workers") as usize]));
                ctx.count("mode-t-loads");
                // half of them also preempt workers at allocation points inside the closures
                // (VERIF_NO_ALLOC_PREEMPT: diagnosis knob used for the sensitivity proof, DESIGN.md 9.1e)
                let pre = (i >= n_sched || ctx.chance(S, 1, 2, "alloc-preempt")) && std::env::var_os("VERIF_NO_ALLOC_PREEMPT").is_none();
                ctx.set_alloc_preempt(pre);
                if pre {
                    ctx.count("mode-t-loads-with-allocation-preemption");
                }
            } else {
                ctx.set_mode_t(None);
            }
            ctx.take_orders();
            let loaded = guarded("load_mem", || sim::lopdf::Document::load_mem(img))?;
            let outcome = match &loaded {
                Ok(d) => Ok(sim::full_digest(d)),
                Err(e) => Err(format!("{:?}", e)),
            };
            ctx.set_mode_t(None);
            ctx.set_alloc_preempt(false);
            ctx.count_n("allocation-point-preemptions", simhook::baton::take_preemptions());
            if simhook::baton::take_broken() {
                // a worker preempted at an allocation held a lock the simulator does not own and the
                // section stalled: the load ran unsimulated from there on and is not judged
                ctx.count("mode-t-loads-stalled-and-discarded");
                continue;
            }
            match &outcome {
                Ok(dg) => ctx.event("c08-loaded", 1, *dg),
                Err(e) => ctx.event("c08-loaded", 0, simcore::fnv(e.as_bytes())),
            }
            // reach: relative completion order of the object-stream containers
            if let (Ok(d), Some(top)) = (&loaded, ctx.take_orders().first()) {
                let keys: Vec<u32> = d.reference_table.entries.keys().cloned().collect();
                if keys.len() == top.len() {
                    let rel: Vec<u32> = top.iter().map(|&i| keys[i]).filter(|k| containers.contains(k)).collect();
                    if rel.len() >= 2 {
                        let mut hh = simcore::fnv(img);
                        for r in rel {
                            hh = simcore::mix(hh, r as u64);
                        }
                        distinct_orders.insert(hh);
                    }
                }
            }
            if outcome != reference {
                return Err(Violation::new(
                    "differs-from-sequential",
                    format!(
                        "{kind} image ({}): schedule #{i} gives {} but the sequential build gives {}",
                        describe(&h),
                        show_outcome(&outcome),
                        show_outcome(&reference)
                    ),
                ));
            }
            if let Some(f) = &first_sim {
                if *f != outcome {
                    return Err(Violation::new(
                        "digest-differs-across-schedules",
                        format!("{kind} image ({}): schedule #{i} gives {} but an earlier schedule gave {}", describe(&h), show_outcome(&outcome), show_outcome(f)),
                    ));
                }
            } else {
                first_sim = Some(outcome);
            }
        }
        ctx.count(if reference.is_ok() { "image-loads-ok" } else { "image-load-error" });
        ctx.count(match *kind {
            "valid" => "image-valid",
            "misdesignated" => "image-misdesignated",
            _ => "image-fault-corrupted",
        });
    }
    // load_filtered with a keep-everything filter takes the other branch of the parallel closure
    // and must give the same document (real file source)
    {
        fn keep(id: (u32, u16), o: &mut sim::lopdf::Object) -> Option<((u32, u16), sim::lopdf::Object)> {
            Some((id, o.clone()))
        }
        let img = &images[0].0;
        let path = scratch_dir().join(format!("c08-{}.pdf", std::process::id()));
        if std::fs::write(&path, img).is_ok() {
            ctx.set_sched(SchedPolicy::Random);
            let reference = guarded("load_mem(seq)", || seq::load_outcome(img))?;
            let o = guarded("load_filtered", || sim::lopdf::Document::load_filtered(&path, keep))?;
            let o = match &o {
                Ok(d) => Ok(sim::full_digest(d)),
                Err(e) => Err(format!("{:?}", e)),
            };
            let _ = std::fs::remove_file(&path);
            ctx.count("load-filtered-keep-all");
            if o != reference {
                return Err(Violation::new(
                    "differs-from-sequential",
                    format!("valid image ({}): load_filtered with a keep-everything filter gives {} but load_mem (sequential build) gives {}", describe(&h), show_outcome(&o), show_outcome(&reference)),
                ));
            }
        }
    }
    // load_filtered with a filter that rejects a third of the objects (the closure's early exits):
    // the same document under every completion order, and the one the sequential build gives
    {
        use std::sync::atomic::{AtomicU64, Ordering};
        static SALT: AtomicU64 = AtomicU64::new(0);
        fn rejected(id: (u32, u16)) -> bool {
            simcore::mix(SALT.load(Ordering::Relaxed), id.0 as u64) % 3 == 0
        }
        fn f_sim(id: (u32, u16), o: &mut sim::lopdf::Object) -> Option<((u32, u16), sim::lopdf::Object)> {
            if rejected(id) { None } else { Some((id, o.clone())) }
        }
        fn f_seq(id: (u32, u16), o: &mut seq::lopdf::Object) -> Option<((u32, u16), seq::lopdf::Object)> {
            if rejected(id) { None } else { Some((id, o.clone())) }
        }
        let path = scratch_dir().join(format!("c08r-{}.pdf", std::process::id()));
        for (img, kind) in images.iter().take(2) {
            if std::fs::write(&path, img).is_err() {
                break;
            }
            SALT.store(ctx.draw(W, 1 << 20, "filter-salt"), Ordering::Relaxed);
            let reference = guarded("load_filtered(seq)", || seq::lopdf::Document::load_filtered(&path, f_seq))?;
            let reference = match &reference {
                Ok(d) => Ok(seq::full_digest(d)),
                Err(e) => Err(format!("{:?}", e)),
            };
            for i in 0..4 {
                ctx.set_sched(match i {
                    0 => SchedPolicy::InOrder,
                    1 => SchedPolicy::Reverse,
                    _ => SchedPolicy::Random,
                });
                ctx.set_num_threads([1usize, 2, 3, 4, 8, 16][ctx.draw(S, 6, "pool-size") as usize]);
                let o = guarded("load_filtered", || sim::lopdf::Document::load_filtered(&path, f_sim))?;
                let o = match &o {
                    Ok(d) => Ok(sim::full_digest(d)),
                    Err(e) => Err(format!("{:?}", e)),
                };
                ctx.count("load-filtered-rejecting");
                if o != reference {
                    let _ = std::fs::remove_file(&path);
                    return Err(Violation::new(
                        "differs-from-sequential",
                        format!("{kind} image ({}): load_filtered with a filter rejecting a third of the objects gives {} under schedule #{i} but {} in the sequential build", describe(&h), show_outcome(&o), show_outcome(&reference)),
                    ));
                }
            }
        }
        let _ = std::fs::remove_file(&path);
    }
    // exhaustive part: every relative completion order of the items whose closures touch the
    // shared state (object-stream containers, streams whose Length lives in an object stream)
    {
        let img = &images[0].0;
        ctx.set_sched(SchedPolicy::InOrder);
        if let Ok(d) = guarded("load_mem", || sim::lopdf::Document::load_mem(img))? {
            let keys: Vec<u32> = d.reference_table.entries.keys().cloned().collect();
            let exp = &h.written.expect[last];
            let mut obs: Vec<u32> = containers.clone();
            for (id, o) in &exp.objects {
                if let MObj::Stream(dd, _) = o {
                    if let Some(MObj::Ref(n, _)) = dict_get(dd, b"Length") {
                        if h.written.layout.compressed.contains_key(n) {
                            obs.push(id.0);
                        }
                    }
                }
            }
            obs.sort();
            obs.dedup();
            let pos: Vec<usize> = obs.iter().filter_map(|k| keys.iter().position(|x| x == k)).collect();
            let limit = if h.heavy { 0 } else if thorough() { 5 } else { 4 };
            if pos.len() == obs.len() && pos.len() >= 2 && pos.len() <= limit {
                let reference = guarded("load_mem(seq)", || seq::load_outcome(img))?;
                let mut perm: Vec<usize> = (0..pos.len()).collect();
                let mut n_orders = 0u64;
                loop {
                    let mut order: Vec<usize> = (0..keys.len()).collect();
                    for (j, &pj) in perm.iter().enumerate() {
                        order[pos[j]] = pos[pj];
                    }
                    ctx.set_sched(SchedPolicy::Scripted(std::sync::Arc::new(order)));
                    let o = guarded("load_mem", || sim::load_outcome(img))?;
                    n_orders += 1;
                    if o != reference {
                        return Err(Violation::new(
                            "differs-from-sequential",
                            format!("valid image ({}): completion order {:?} of the observable items {:?} gives {} but the sequential build gives {}", describe(&h), perm, obs, show_outcome(&o), show_outcome(&reference)),
                        ));
                    }
                    // next permutation (lexicographic)
                    let Some(i) = (0..perm.len() - 1).rev().find(|&i| perm[i] < perm[i + 1]) else { break };
                    let j = (i + 1..perm.len()).rev().find(|&j| perm[j] > perm[i]).unwrap();
                    perm.swap(i, j);
                    perm[i + 1..].reverse();
                }
                ctx.count("files-with-all-orders-enumerated");
                ctx.count_n("orders-enumerated-exhaustively", n_orders);
            }
        }
    }
    ctx.set_sched(SchedPolicy::Random);
    ctx.count_n("distinct-container-orders", distinct_orders.len() as u64);
    if containers.len() >= 2 {
        ctx.count("files-with-2+-object-streams");
    }
    if !h.written.layout.compressed.is_empty() && last > 0 {
        ctx.count("histories-with-compressed-objects");
    }
    out.case_hash = simcore::fnv(&h.written.bytes);
    out.nontrivial = containers.len() >= 2 || h.written.expect[last].objects.len() >= 2;
    out.sample = format!("{}; {} images x {} schedules; {} distinct container orders", describe(&h), images.len(), n_sched, distinct_orders.len());
    Ok(())
}

fn show_outcome(o: &Result<u64, String>) -> String {
    match o {
        Ok(d) => format!("document digest {:016x}", d),
        Err(e) => format!("error {e}"),
    }
}

/// Fidelity of the scheduler stub (not a deciding step): the same sources built
/// against the real rayon, loaded inside real pools, must produce the outcome
/// the simulator found to be the unique one. A difference is a harness error.
pub fn c08_fidelity(ctx: &Ctx, out: &mut RunOut) -> Result<(), Violation> {
    let h = gen_history(ctx, 3, true, false, false);
    let img = &h.written.bytes;
    let reference = guarded("load_mem(seq)", || seq::load_outcome(img))?;
    for threads in [1usize, 2, 4, 8, 16] {
        let pool = rayon_real::ThreadPoolBuilder::new().num_threads(threads).build().expect("pool");
        for _ in 0..2 {
            let o = pool.install(|| real::load_outcome(img));
            if o != reference {
                // uncontrolled threads do not replay: counted and reported, never a VIOLATION
                ctx.count("stub-fidelity-mismatch");
            }
        }
    }
    ctx.count("real-pool-loads");
    out.case_hash = simcore::fnv(img);
    out.nontrivial = true;
    out.sample = describe(&h);
    Ok(())
}
