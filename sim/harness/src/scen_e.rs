//! World E — editing programs with failing persistence (C11). A program of
//! public editing calls runs against lopdf; after every call the before/after
//! states are compared according to the operation's frame and the
//! post-conditions C11 names (DESIGN.md Appendix A). `save_to` runs against the
//! simulated sink (chunking, EINTR, hard faults) and "crash" discards the
//! in-memory document and reloads the last fully accepted image under a drawn
//! loader schedule.

use crate::common::*;
use crate::runner::{guarded, RunOut, Violation};
use crate::variants::sim;
use pdfmodel::pagegen::{self, Id, MOp};
use pdfmodel::{dict_get, MDict, MDoc, MObj};
use sim::lopdf;
use simcore::io::{draw_benign_sink, draw_benign_source, HARD_KINDS};
use simcore::{Ctx, FaultKind, SimSink, SimSource, Stream::F, Stream::W};
use std::collections::{BTreeMap, BTreeSet};

/// Snapshot of the document in canonical form (dictionary keys sorted).
fn snap(d: &lopdf::Document) -> MDoc {
    pdfmodel::canon_doc(sim::from_doc(d))
}

fn v(class: &str, op: &str, detail: String) -> Violation {
    Violation::new(class, format!("{op}: {detail}"))
}

/// Every object except `allowed` ones is unchanged; new ids only if `may_add`.
fn frame(before: &MDoc, after: &MDoc, op: &str, allowed: &dyn Fn(Id) -> bool, may_add: bool, trailer_may_change: bool) -> Result<(), Violation> {
    for (id, o) in &before.objects {
        if allowed(*id) {
            continue;
        }
        match after.objects.get(id) {
            None => return Err(v("object-removed", op, format!("object {id:?} ({}) disappeared", pdfmodel::show(o)))),
            Some(a) if a != o => {
                return Err(v("object-altered", op, format!("object {id:?} changed from {} to {}", pdfmodel::show(o), pdfmodel::show(a))))
            }
            _ => {}
        }
    }
    for id in after.objects.keys() {
        if !before.objects.contains_key(id) && !may_add && !allowed(*id) {
            return Err(v("object-appeared", op, format!("unexpected new object {id:?}")));
        }
    }
    if !trailer_may_change && before.trailer != after.trailer {
        return Err(v("trailer-altered", op, "trailer changed".to_string()));
    }
    Ok(())
}

fn max_id_covers(after: &MDoc, op: &str) -> Result<(), Violation> {
    let m = after.objects.keys().map(|k| k.0).max().unwrap_or(0);
    if after.max_id < m {
        return Err(v("max-id-too-small", op, format!("max_id {} is below the highest object number {}", after.max_id, m)));
    }
    Ok(())
}

fn counts_ok(doc: &MDoc, op: &str) -> Result<(), Violation> {
    for n in pagegen::pages_nodes(doc) {
        let want = pagegen::leaf_count(doc, n) as i64;
        let got = pagegen::dict_of(&doc.objects[&n]).and_then(|d| dict_get(d, b"Count")).cloned();
        if got != Some(MObj::Int(want)) {
            return Err(v("page-count-wrong", op, format!("Pages node {n:?} has Count {:?} but {} leaf pages", got.map(|g| pdfmodel::show(&g)), want)));
        }
    }
    Ok(())
}

fn content_ok(d: &lopdf::Document, after: &MDoc, page: Id, exp: &[MOp], op: &str) -> Result<(), Violation> {
    // (i) the object graph, read independently
    let got = pagegen::page_ops(after, page).map_err(|e| v("page-content-wrong", op, format!("page {page:?}: content not readable: {e}")))?;
    pagegen::same_ops(exp, &got).map_err(|e| v("page-content-wrong", op, format!("page {page:?} (object graph): {e}")))?;
    // (ii) lopdf's own view
    let c = guarded("get_and_decode_page_content", || d.get_and_decode_page_content(page))?
        .map_err(|e| v("page-content-wrong", op, format!("page {page:?}: get_and_decode_page_content failed: {e:?}")))?;
    let got2: Vec<MOp> = c.operations.iter().map(|o| MOp { operator: o.operator.clone(), operands: o.operands.iter().map(sim::from_obj).collect() }).collect();
    pagegen::same_ops(exp, &got2).map_err(|e| v("page-content-wrong", op, format!("page {page:?} (get_and_decode_page_content): {e}")))?;
    Ok(())
}

struct World {
    d: lopdf::Document,
    exp_ops: BTreeMap<Id, Vec<MOp>>,
    allocated: Vec<Id>,
    pages: Vec<Id>,
    annotations: Vec<Id>,
    protected: BTreeSet<Id>,
    /// resource dictionaries (and the category dictionaries they refer to): may be deleted, never overwritten with an arbitrary value
    resource_objs: BTreeSet<Id>,
}

fn recompute_protected(w: &mut World, m: &MDoc) {
    // never explicitly deleted by the program: catalog, page-tree nodes, pages, content streams
    let mut p = BTreeSet::new();
    if let Some(MObj::Ref(n, g)) = dict_get(&m.trailer, b"Root") {
        p.insert((*n, *g));
    }
    for n in pagegen::pages_nodes(m) {
        p.insert(n);
    }
    for pg in pagegen::pages(m) {
        p.insert(pg);
        if let Some(MObj::Ref(a, b)) = pagegen::dict_of(&m.objects[&pg]).and_then(|d| dict_get(d, b"Contents")) {
            p.insert((*a, *b));
        }
        if let Ok(ids) = pagegen::content_stream_ids(m, pg) {
            p.extend(ids);
        }
    }
    w.protected = p;
    let mut r = BTreeSet::new();
    for (_, o) in m.objects.iter() {
        if let Some(MObj::Ref(a, b)) = pagegen::dict_of(o).and_then(|d| dict_get(d, b"Resources")) {
            r.insert((*a, *b));
            if let Some(MObj::Dict(rd)) = m.objects.get(&(*a, *b)) {
                for (_, val) in rd {
                    if let MObj::Ref(x, y) = val {
                        r.insert((*x, *y));
                    }
                }
            }
        }
        if let Some(MObj::Dict(rd)) = pagegen::dict_of(o).and_then(|d| dict_get(d, b"Resources")) {
            for (_, val) in rd {
                if let MObj::Ref(x, y) = val {
                    r.insert((*x, *y));
                }
            }
        }
    }
    w.resource_objs = r;
}

pub fn c11_program(ctx: &Ctx, out: &mut RunOut) -> Result<(), Violation> {
    for k in ["save-with-hard-fault", "save-accepted", "crash-reload", "start-from-loaded-file", "start-from-foreign-file-with-updates"] {
        ctx.count_n(k, 0); // registered so that a probe that never fires shows up as zero in the evidence
    }
    let pd = pagegen::gen_page_doc(ctx);
    let start_mode = ctx.draw(W, 4, "start-mode"); // 0,1 generated value; 2 saved by lopdf and loaded; 3 written by the reference producer and loaded
    let from_file = start_mode == 2;
    let mut w = World { d: sim::to_doc(&pd.doc), exp_ops: pd.expected_ops.clone(), allocated: vec![], pages: pd.pages.clone(), annotations: pd.annotations.clone(), protected: BTreeSet::new(), resource_objs: BTreeSet::new() };
    if from_file {
        // start from a loaded file instead of a generated value
        let mut img = Vec::new();
        guarded("save_to", || w.d.save_to(&mut img))?.map_err(|e| Violation::new("healthy-save-failed", format!("initial save: {e}")))?;
        w.d = guarded("load_mem", || sim::load_mem(&img))?.map_err(|e| Violation::new("load-failed", format!("initial load: {e}")))?;
        ctx.count("start-from-loaded-file");
    }
    if start_mode == 3 {
        // a foreign file: object streams, cross-reference streams, indirect lengths, any syntax
        use pdfmodel::refwriter::{self, Revision};
        let mut revs = vec![Revision { objects: pd.doc.objects.clone(), trailer: pdfmodel::trailer_payload(&pd.doc.trailer) }];
        // half of them with one or two appended updates that rewrite a few low-numbered objects with
        // the values they already have: the newest cross-reference section then lists neither the
        // highest object number nor most of the document
        if ctx.chance(W, 1, 2, "foreign-start-updates") {
            for _ in 0..1 + ctx.draw(W, 2, "foreign-start-n-updates") {
                let k = 1 + ctx.draw(W, 3, "foreign-start-rewritten") as usize;
                let objs: BTreeMap<Id, MObj> = pd.doc.objects.iter().take(k).map(|(i, o)| (*i, o.clone())).collect();
                revs.push(Revision { objects: objs, trailer: pdfmodel::trailer_payload(&pd.doc.trailer) });
            }
            ctx.count("start-from-foreign-file-with-updates");
        }
        let mut opts = refwriter::draw_opts(ctx, revs.len(), "1.6", &[0xE2, 0xE3, 0xCF, 0xD3]);
        opts.raw_cr_eol = false;
        opts.leading_junk = false;
        let wr = refwriter::write_history(ctx, &revs, &opts);
        w.d = guarded("load_mem", || sim::load_mem(&wr.bytes))?.map_err(|e| Violation::new("load-failed", format!("initial load of a reference-writer file: {e}")))?;
        ctx.count("start-from-foreign-file");
    }
    // sanity of the starting point (harness self-check, not a property)
    {
        let m0 = snap(&w.d);
        counts_ok(&m0, "start")?;
        for p in &w.pages {
            content_ok_start(&m0, *p, &w.exp_ops[p])?;
        }
        recompute_protected(&mut w, &m0);
    }
    ctx.note(|| {
        let m0 = snap(&w.d);
        let mut s = format!("start document (from file: {from_file}): trailer {}", pdfmodel::show(&MObj::Dict(m0.trailer.clone())));
        for (id, o) in &m0.objects {
            s.push_str(&format!("\n   {} {} obj {}", id.0, id.1, pdfmodel::show(o)));
        }
        s
    });
    let mut last_image: Option<(Vec<u8>, MDoc, BTreeMap<Id, Vec<MOp>>, Vec<Id>, Vec<Id>)> = None;
    let n_ops = 1 + ctx.draw(W, 12, "program-len") as usize;
    let mut trail: Vec<String> = Vec::new();
    let mut h = 0u64;
    for step in 0..n_ops {
        let before = snap(&w.d);
        let kind = ctx.draw(W, 20, "op");
        h = simcore::mix(h, kind);
        let ids: Vec<Id> = before.objects.keys().cloned().collect();
        let pick_id = |label: &'static str| -> Option<Id> { if ids.is_empty() { None } else { Some(ids[ctx.draw(W, ids.len() as u64, label) as usize]) } };
        let pick_page = |w: &World| -> Option<Id> { if w.pages.is_empty() { None } else { Some(w.pages[ctx.draw(W, w.pages.len() as u64, "page") as usize]) } };
        let opname: String;
        match kind {
            0 => {
                opname = "new_object_id".into();
                let id = guarded(&opname, || w.d.new_object_id())?;
                let after = snap(&w.d);
                if before.objects.contains_key(&id) || w.allocated.contains(&id) {
                    return Err(v("new-id-collides", &opname, format!("returned {id:?}, which is already in use")));
                }
                frame(&before, &after, &opname, &|_| false, false, false)?;
                w.allocated.push(id);
            }
            1 => {
                opname = "add_object".into();
                let o = small_obj(ctx, &ids);
                let id = guarded(&opname, || w.d.add_object(sim::to_obj(&o)))?;
                let after = snap(&w.d);
                if before.objects.contains_key(&id) || w.allocated.contains(&id) {
                    return Err(v("new-id-collides", &opname, format!("returned {id:?}, which is already in use")));
                }
                frame(&before, &after, &opname, &|x| x == id, false, false)?;
                if after.objects.get(&id) != Some(&pdfmodel::canon(&o)) {
                    return Err(v("object-altered", &opname, format!("stored object differs from the argument: {:?}", after.objects.get(&id).map(pdfmodel::show))));
                }
                max_id_covers(&after, &opname)?;
            }
            2 => {
                opname = "set_object".into();
                // an existing unprotected id, or a freshly allocated one
                let id = if !w.allocated.is_empty() && ctx.chance(W, 1, 2, "set-allocated") {
                    w.allocated.remove(ctx.draw(W, w.allocated.len() as u64, "alloc-idx") as usize)
                } else {
                    match pick_id("set-id") {
                        Some(i) if !w.protected.contains(&i) && !w.resource_objs.contains(&i) => i,
                        _ => continue,
                    }
                };
                let o = small_obj(ctx, &ids);
                guarded(&opname, || w.d.set_object(id, sim::to_obj(&o)))?;
                let after = snap(&w.d);
                frame(&before, &after, &opname, &|x| x == id, false, false)?;
                if after.objects.get(&id) != Some(&pdfmodel::canon(&o)) {
                    return Err(v("object-altered", &opname, "stored object differs from the argument".into()));
                }
                max_id_covers(&after, &opname)?;
            }
            3 => {
                opname = "delete_object".into();
                let Some(x) = pick_id("delete-id") else { continue };
                if w.protected.contains(&x) {
                    continue;
                }
                let ret = guarded(&opname, || w.d.delete_object(x))?;
                let after = snap(&w.d);
                // (references the object holds to itself are removed together with all others before it is returned)
                let returned = ret.as_ref().map(|r| pdfmodel::canon(&sim::from_obj(r)));
                let stored = before.objects.get(&x).cloned();
                if returned != stored && returned != stored.as_ref().map(|o| pagegen::strip_refs(o, &[x])) {
                    return Err(v("delete-return-wrong", &opname, format!("delete_object({x:?}) returned something else than the stored object")));
                }
                check_delete(&before, &after, &[x], &opname, false)?;
                w.annotations.retain(|a| *a != x);
            }
            4 => {
                opname = "remove_object(annotation)".into();
                if w.annotations.is_empty() {
                    continue;
                }
                let x = w.annotations[ctx.draw(W, w.annotations.len() as u64, "annot") as usize];
                let _ = guarded(&opname, || w.d.remove_object(&x))?;
                let after = snap(&w.d);
                // only Annots arrays of pages may change, only by losing references to x
                for (id, o) in &before.objects {
                    let a = after.objects.get(id).ok_or_else(|| v("object-removed", &opname, format!("object {id:?} disappeared")))?;
                    if a == o {
                        continue;
                    }
                    let ok = match (o, a) {
                        (MObj::Dict(bd), MObj::Dict(ad)) if w.pages.contains(id) => {
                            let mut bd2 = bd.clone();
                            if let Some(MObj::Array(arr)) = dict_get(bd, b"Annots") {
                                let filtered: Vec<MObj> = arr.iter().filter(|e| **e != MObj::Ref(x.0, x.1)).cloned().collect();
                                pdfmodel::dict_set(&mut bd2, b"Annots", MObj::Array(filtered));
                            }
                            bd2 == *ad
                        }
                        _ => false,
                    };
                    if !ok {
                        return Err(v("object-altered", &opname, format!("object {id:?} changed from {} to {}", pdfmodel::show(o), pdfmodel::show(a))));
                    }
                }
                frame(&before, &after, &opname, &|_| true, false, false)?;
            }
            5 => {
                opname = "prune_objects".into();
                let reach = pagegen::reachable(&before);
                let want: BTreeSet<Id> = before.objects.keys().filter(|k| !reach.contains(k)).cloned().collect();
                let got: BTreeSet<Id> = guarded(&opname, || w.d.prune_objects())?.into_iter().collect();
                let after = snap(&w.d);
                if got != want {
                    return Err(v("prune-set-wrong", &opname, format!("returned {:?}, unreachable set is {:?}", got, want)));
                }
                frame(&before, &after, &opname, &|x| want.contains(&x), false, false)?;
                if let Some(x) = want.iter().find(|x| after.objects.contains_key(x)) {
                    return Err(v("prune-set-wrong", &opname, format!("unreachable object {x:?} survived")));
                }
                w.annotations.retain(|a| !want.contains(a));
                w.allocated.clear();
            }
            6 => {
                opname = "delete_pages".into();
                if w.pages.is_empty() {
                    continue;
                }
                let mut nums: Vec<u32> = Vec::new();
                for _ in 0..1 + ctx.draw(W, 2, "del-pages-n") {
                    let n = 1 + ctx.draw(W, w.pages.len() as u64, "del-page-no") as u32;
                    if !nums.contains(&n) {
                        nums.push(n);
                    }
                }
                let doomed: Vec<Id> = nums.iter().map(|n| w.pages[*n as usize - 1]).collect();
                guarded(&opname, || w.d.delete_pages(&nums))?;
                let after = snap(&w.d);
                let remaining: Vec<Id> = w.pages.iter().filter(|p| !doomed.contains(p)).cloned().collect();
                let now = pagegen::pages(&after);
                if now != remaining {
                    return Err(v("page-order-wrong", &opname, format!("deleting pages {:?} of {:?} left {:?}, expected {:?}", nums, w.pages, now, remaining)));
                }
                counts_ok(&after, &opname)?;
                check_delete(&before, &after, &doomed, &opname, true)?;
                w.pages = remaining;
                for p in &doomed {
                    w.exp_ops.remove(p);
                }
                w.annotations.retain(|a| after.objects.contains_key(a));
            }
            7 | 8 => {
                let start = if kind == 7 { 1 } else { 1 + ctx.draw(W, 60, "renumber-start") as u32 };
                opname = format!("renumber_objects_with({start})");
                if kind == 7 {
                    guarded(&opname, || w.d.renumber_objects())?;
                } else {
                    guarded(&opname, || w.d.renumber_objects_with(start))?;
                }
                let after = snap(&w.d);
                let f = check_renumber(&before, &after, &opname)?;
                max_id_covers(&after, &opname)?;
                let map = |id: &Id| f.get(id).cloned();
                let new_pages: Vec<Id> = w.pages.iter().filter_map(map).collect();
                if new_pages.len() != w.pages.len() || pagegen::pages(&after) != new_pages {
                    return Err(v("page-order-wrong", &opname, format!("page order changed: {:?} -> {:?}", w.pages, pagegen::pages(&after))));
                }
                w.pages = new_pages;
                w.exp_ops = w.exp_ops.iter().filter_map(|(k, val)| map(k).map(|nk| (nk, val.clone()))).collect();
                w.annotations = w.annotations.iter().filter_map(map).collect();
                w.allocated.clear();
                counts_ok(&after, &opname)?;
            }
            9 | 10 => {
                opname = if kind == 9 { "compress".into() } else { "decompress".into() };
                if kind == 9 {
                    guarded(&opname, || w.d.compress())?;
                } else {
                    guarded(&opname, || w.d.decompress())?;
                }
                let after = snap(&w.d);
                check_recode(&before, &after, &opname)?;
            }
            11 => {
                opname = "change_page_content".into();
                let Some(p) = pick_page(&w) else { continue };
                let ops = pagegen::gen_ops(ctx, 5);
                let bytes = pagegen::encode_ops(&ops, ctx.draw(W, 2, "ops-sep") as u8, ctx.draw(W, 3, "ops-tail") as u8);
                let had_contents = pagegen::dict_of(&before.objects[&p]).map_or(false, |d| dict_get(d, b"Contents").is_some());
                let old_streams: Vec<Id> = pagegen::content_stream_ids(&before, p).unwrap_or_default();
                let r = guarded(&opname, || w.d.change_page_content(p, bytes))?;
                let after = snap(&w.d);
                let contents_holder: Option<Id> = match pagegen::dict_of(&before.objects[&p]).and_then(|d| dict_get(d, b"Contents")) {
                    Some(MObj::Ref(a, b)) => Some((*a, *b)),
                    _ => None,
                };
                frame(&before, &after, &opname, &|x| x == p || old_streams.contains(&x) || Some(x) == contents_holder, true, false)?;
                if had_contents {
                    if r.is_err() {
                        return Err(v("page-content-wrong", &opname, format!("page {p:?} has Contents but the call failed: {:?}", r.err())));
                    }
                    w.exp_ops.insert(p, ops);
                    content_ok(&w.d, &after, p, &w.exp_ops[&p], &opname)?;
                } else {
                    // no Contents entry: the call may fail or do nothing; nothing may be invented
                    content_ok(&w.d, &after, p, &w.exp_ops[&p], &opname)?;
                }
                max_id_covers(&after, &opname)?;
            }
            12 | 13 => {
                let Some(p) = pick_page(&w) else { continue };
                let ops = pagegen::gen_ops(ctx, 4);
                opname = if kind == 12 { "add_page_contents".into() } else { "add_to_page_content".into() };
                let r = if kind == 12 {
                    let bytes = pagegen::encode_ops(&ops, ctx.draw(W, 2, "ops-sep") as u8, ctx.draw(W, 3, "ops-tail") as u8);
                    guarded(&opname, || w.d.add_page_contents(p, bytes))?
                } else {
                    let content = lopdf::content::Content {
                        operations: ops.iter().map(|o| lopdf::content::Operation::new(&o.operator, o.operands.iter().map(sim::to_obj).collect())).collect::<Vec<_>>(),
                    };
                    guarded(&opname, || w.d.add_to_page_content(p, content))?
                };
                let after = snap(&w.d);
                r.map_err(|e| v("page-content-wrong", &opname, format!("failed on page {p:?}: {e:?}")))?;
                frame(&before, &after, &opname, &|x| x == p, true, false)?;
                let mut exp = w.exp_ops[&p].clone();
                exp.extend(ops);
                w.exp_ops.insert(p, exp);
                content_ok(&w.d, &after, p, &w.exp_ops[&p], &opname)?;
                max_id_covers(&after, &opname)?;
            }
            14 | 15 | 16 => {
                let Some(p) = pick_page(&w) else { continue };
                let usable_before = pagegen::usable_resources(&before, p);
                let nm = [&b"X1"[..], b"X2", b"GS1", b"F1"][ctx.draw(W, 4, "res-name") as usize].to_vec();
                let target = pick_id("res-target").unwrap_or((1, 0));
                let (cat, r): (Option<&[u8]>, _) = match kind {
                    14 => {
                        opname = "add_xobject".into();
                        (Some(b"XObject"), guarded(&opname, || w.d.add_xobject(p, nm.clone(), target))?)
                    }
                    15 => {
                        opname = "add_graphics_state".into();
                        (Some(b"ExtGState"), guarded(&opname, || w.d.add_graphics_state(p, nm.clone(), target))?)
                    }
                    _ => {
                        opname = "get_or_create_resources".into();
                        (None, guarded(&opname, || w.d.get_or_create_resources(p).map(|_| ()))?)
                    }
                };
                let after = snap(&w.d);
                let usable_after = pagegen::usable_resources(&after, p);
                for (k, val) in &usable_before {
                    if Some(k.0.as_slice()) == cat && k.1 == nm {
                        continue; // the entry being (re)defined
                    }
                    if usable_after.get(k) != Some(val) {
                        return Err(v(
                            "resource-lost",
                            &opname,
                            format!("page {p:?} could use /{} /{} before the call and cannot afterwards", String::from_utf8_lossy(&k.0), String::from_utf8_lossy(&k.1)),
                        ));
                    }
                }
                if let (Some(c), Ok(())) = (cat, &r) {
                    if usable_after.get(&(c.to_vec(), nm.clone())) != Some(&MObj::Ref(target.0, target.1)) {
                        return Err(v("resource-not-added", &opname, format!("returned Ok but page {p:?} cannot use /{} /{}", String::from_utf8_lossy(c), String::from_utf8_lossy(&nm))));
                    }
                }
                // frame: the page and the resource objects it resolves to — its own Resources or, when it
                // has none, the nearest ancestor's (whose indirect sub-dictionaries the copied dictionary shares)
                let mut allowed: BTreeSet<Id> = [p].into();
                let mut node = Some(p);
                for _ in 0..64 {
                    let Some(nid) = node else { break };
                    let Some(nd) = before.objects.get(&nid).and_then(pagegen::dict_of) else { break };
                    if let Some(res) = dict_get(nd, b"Resources") {
                        let mut res_dict = res;
                        if let MObj::Ref(a, b) = res {
                            allowed.insert((*a, *b));
                            if let Some(o) = before.objects.get(&(*a, *b)) {
                                res_dict = o;
                            }
                        }
                        if let MObj::Dict(rd) = res_dict {
                            for (_, val) in rd {
                                if let MObj::Ref(x, y) = val {
                                    allowed.insert((*x, *y));
                                }
                            }
                        }
                        break;
                    }
                    node = match dict_get(nd, b"Parent") {
                        Some(MObj::Ref(a, b)) => Some((*a, *b)),
                        _ => None,
                    };
                }
                frame(&before, &after, &opname, &|x| allowed.contains(&x), false, false)?;
            }
            17 => {
                opname = "add_bookmark+build_outline".into();
                let Some(p) = pick_page(&w) else { continue };
                let n = 1 + ctx.draw(W, 3, "bookmarks-n");
                let mut parent = None;
                for i in 0..n {
                    let b = lopdf::Bookmark::new(format!("Title {i} é"), [0.0, 0.5, 1.0], i as u32 % 4, p);
                    let id = guarded("add_bookmark", || w.d.add_bookmark(b, parent))?;
                    if ctx.chance(W, 1, 2, "bookmark-nest") {
                        parent = Some(id);
                    }
                }
                let root = guarded("build_outline", || w.d.build_outline())?;
                let after = snap(&w.d);
                frame(&before, &after, &opname, &|_| false, true, false)?;
                for id in after.objects.keys().filter(|k| !before.objects.contains_key(k)) {
                    if w.allocated.contains(id) {
                        return Err(v("new-id-collides", &opname, format!("outline object got the already allocated id {id:?}")));
                    }
                }
                if let Some(r) = root {
                    if before.objects.contains_key(&r) {
                        return Err(v("new-id-collides", &opname, format!("outline root reuses existing id {r:?}")));
                    }
                }
                max_id_covers(&after, &opname)?;
                // keep later build_outline calls from re-emitting the same bookmarks
                w.d.bookmarks.clear();
                w.d.bookmark_table.clear();
            }
            18 => {
                opname = "save_to".into();
                let mut cfg = draw_benign_sink(ctx);
                let faulty = ctx.chance(F, 1, 2, "save-fault");
                // size estimate for the fault position: a healthy reference save of a clone
                let mut probe = Vec::new();
                {
                    let mut c = w.d.clone();
                    let _ = c.save_to(&mut probe);
                }
                if faulty && !probe.is_empty() {
                    let off = ctx.draw(F, probe.len() as u64, "fault-offset") as usize;
                    let kind = if ctx.chance(F, 1, 4, "zero-write") { FaultKind::ZeroWrite } else { FaultKind::Hard(HARD_KINDS[ctx.draw(F, HARD_KINDS.len() as u64, "fault-kind") as usize]) };
                    cfg.fault_at = Some((off, kind));
                    cfg.recovers = ctx.chance(F, 1, 3, "fault-recovers");
                }
                let mut sink = SimSink::new(ctx, cfg);
                let r = guarded(&opname, || w.d.save_to(&mut sink))?;
                let after = snap(&w.d);
                // frame: objects identical; max_id may grow; trailer only in bookkeeping keys
                if before.objects != after.objects {
                    return Err(v("object-altered", &opname, "save changed the objects of the in-memory document".into()));
                }
                if pdfmodel::trailer_payload(&before.trailer) != pdfmodel::trailer_payload(&after.trailer) {
                    return Err(v("trailer-altered", &opname, "save changed non-bookkeeping trailer entries".into()));
                }
                if sink.fault_fired {
                    ctx.count("save-with-hard-fault");
                    if r.is_ok() {
                        return Err(v("ok-after-hard-fault", &opname, "save_to returned Ok although the sink failed".into()));
                    }
                } else {
                    r.map_err(|e| v("healthy-save-failed", &opname, format!("{e}")))?;
                    ctx.count("save-accepted");
                    let img = sink.accepted;
                    let mut model = before.clone();
                    model.objects.retain(|_, o| !pdfmodel::is_xref_stream_obj(o) && !pdfmodel::is_objstm_obj(o));
                    crate::c03::check_image(ctx, &img, &model, None)?;
                    last_image = Some((img, model, w.exp_ops.clone(), w.pages.clone(), w.annotations.clone()));
                }
            }
            _ => {
                opname = "crash+reload".into();
                let Some((img, model, ops, pages, annots)) = last_image.clone() else { continue };
                ctx.count("crash-reload");
                let mut src = SimSource::new(ctx, &img, draw_benign_source(ctx));
                let d2 = guarded("load_from", || sim::load_from(&mut src))?.map_err(|e| v("load-failed", &opname, format!("last accepted image does not load: {e}")))?;
                let got = snap(&d2);
                pdfmodel::same_doc(&model, &got, &|_, o| pdfmodel::is_xref_stream_obj(o)).map_err(|(c, e)| v(c, &opname, e))?;
                w.d = d2;
                w.exp_ops = ops;
                w.pages = pages;
                w.annotations = annots;
                w.allocated.clear();
            }
        }
        trail.push(opname.clone());
        ctx.note(|| format!("op {step}: {opname}"));
        ctx.event("c11-op", step as u64, kind);
        // global invariants after every step
        let after = snap(&w.d);
        counts_ok(&after, &opname)?;
        recompute_protected(&mut w, &after);
    }
    // the document must still be saveable and reload to itself
    {
        let before = snap(&w.d);
        let mut img = Vec::new();
        guarded("final save_to", || w.d.save_to(&mut img))?.map_err(|e| Violation::new("healthy-save-failed", format!("final save: {e}")))?;
        let mut model = before.clone();
        model.objects.retain(|_, o| !pdfmodel::is_xref_stream_obj(o) && !pdfmodel::is_objstm_obj(o));
        crate::c03::check_image(ctx, &img, &model, None)?;
        let d2 = guarded("load_mem", || sim::load_mem(&img))?.map_err(|e| Violation::new("load-failed", format!("final image does not load: {e}")))?;
        pdfmodel::same_doc(&model, &snap(&d2), &|_, o| pdfmodel::is_xref_stream_obj(o)).map_err(|(c, e)| Violation::new(c, format!("final reload: {e}")))?;
        for p in &w.pages {
            content_ok(&d2, &snap(&d2), *p, &w.exp_ops[p], "final reload")?;
        }
    }
    out.case_hash = simcore::mix(h, sim::full_digest(&w.d));
    out.nontrivial = trail.len() >= 2;
    out.sample = format!("{} pages; program: {}", pd.pages.len(), trail.join(", "));
    let _ = thorough();
    Ok(())
}

fn content_ok_start(m: &MDoc, page: Id, exp: &[MOp]) -> Result<(), Violation> {
    let got = pagegen::page_ops(m, page);
    // a generated `Contents -> reference to an array object` is legal; everything the generator emits must be readable
    match got {
        Ok(g) => pagegen::same_ops(exp, &g).map_err(|e| Violation::new("harness-start-state", format!("page {page:?}: {e}"))),
        Err(e) => Err(Violation::new("harness-start-state", format!("page {page:?}: {e}"))),
    }
}

fn small_obj(ctx: &Ctx, ids: &[Id]) -> MObj {
    match ctx.draw(W, 6, "small-obj") {
        0 => MObj::Int(ctx.draw(W, 100, "small-int") as i64),
        1 => MObj::Str(b"text".to_vec(), false),
        2 => MObj::Dict(vec![(b"K".to_vec(), MObj::Name(b"V".to_vec()))]),
        3 => {
            let body = b"q Q".to_vec();
            MObj::Stream(vec![(b"Length".to_vec(), MObj::Int(body.len() as i64))], body)
        }
        4 if !ids.is_empty() => {
            let t = ids[ctx.draw(W, ids.len() as u64, "small-ref") as usize];
            MObj::Array(vec![MObj::Ref(t.0, t.1), MObj::Int(1), MObj::Ref(t.0, t.1)])
        }
        _ => MObj::Array(vec![MObj::Bool(true), MObj::Null]),
    }
}

/// After deleting `xs`: they are gone, nothing reachable refers to them, and
/// every other object is either untouched or lost exactly the references to `xs`
/// (`count_keys_free`: ancestors' Count may change as well — delete_pages).
fn check_delete(before: &MDoc, after: &MDoc, xs: &[Id], op: &str, count_keys_free: bool) -> Result<(), Violation> {
    for x in xs {
        if after.objects.contains_key(x) {
            return Err(v("object-not-deleted", op, format!("{x:?} still exists")));
        }
    }
    let norm = |o: &MObj| -> MObj {
        if !count_keys_free {
            return o.clone();
        }
        match o {
            MObj::Dict(d) if dict_get(d, b"Type") == Some(&MObj::Name(b"Pages".to_vec())) => MObj::Dict(d.iter().filter(|(k, _)| k != b"Count").cloned().collect::<MDict>()),
            other => other.clone(),
        }
    };
    for (id, o) in &before.objects {
        if xs.contains(id) {
            continue;
        }
        let a = after.objects.get(id).ok_or_else(|| v("object-removed", op, format!("object {id:?} disappeared although only {xs:?} were deleted")))?;
        // An object may lose the references to any subset of the deleted objects: deletions happen one
        // after the other and only objects reachable at that moment are cleaned (an object that became
        // unreachable through the first deletion keeps its reference to the second one). What must hold
        // for reachable objects is checked below (no reference to a deleted object remains).
        let n = xs.len().min(4);
        let ok = (0..(1u32 << n)).any(|mask| {
            let subset: Vec<Id> = (0..n).filter(|i| mask & (1 << i) != 0).map(|i| xs[i]).collect();
            norm(a) == norm(&pagegen::strip_refs(o, &subset))
        });
        if !ok {
            return Err(v("object-altered", op, format!("object {id:?} changed from {} to {} (deleting {xs:?})", pdfmodel::show(o), pdfmodel::show(a))));
        }
    }
    if after.objects.keys().any(|k| !before.objects.contains_key(k)) {
        return Err(v("object-appeared", op, "new object".into()));
    }
    let reach = pagegen::reachable(after);
    for x in xs {
        for (k, val) in &after.trailer {
            if pagegen::mentions(val, *x) {
                return Err(v("dangling-ref-after-delete", op, format!("trailer /{} still refers to deleted {x:?}", String::from_utf8_lossy(k))));
            }
        }
        for id in &reach {
            if pagegen::mentions(&after.objects[id], *x) {
                return Err(v("dangling-ref-after-delete", op, format!("reachable object {id:?} = {} still refers to deleted {x:?}", pdfmodel::show(&after.objects[id]))));
            }
        }
    }
    Ok(())
}

/// Bijection check for renumbering: walk both graphs from the trailer in lock-step.
fn check_renumber(before: &MDoc, after: &MDoc, op: &str) -> Result<BTreeMap<Id, Id>, Violation> {
    let mut f: BTreeMap<Id, Id> = BTreeMap::new();
    let mut inv: BTreeMap<Id, Id> = BTreeMap::new();
    let mut todo: Vec<(Id, Id)> = Vec::new();
    fn walk(
        b: &MObj, a: &MObj, path: &str, before: &MDoc, after: &MDoc, f: &mut BTreeMap<Id, Id>, inv: &mut BTreeMap<Id, Id>, todo: &mut Vec<(Id, Id)>,
    ) -> Result<(), String> {
        match (b, a) {
            (MObj::Ref(n, g), MObj::Ref(m, h)) => {
                let (x, y) = ((*n, *g), (*m, *h));
                match (before.objects.contains_key(&x), after.objects.contains_key(&y)) {
                    // a reference that resolved to nothing before: what it resolves to afterwards is
                    // C10's clause ("still resolves to nothing"), not C11's; not judged here
                    (false, _) => Ok(()),
                    (true, true) => {
                        if let Some(prev) = f.get(&x) {
                            if *prev != y {
                                return Err(format!("{path}: {x:?} renamed to both {prev:?} and {y:?}"));
                            }
                            return Ok(());
                        }
                        if let Some(prev) = inv.get(&y) {
                            return Err(format!("{path}: {y:?} is the new name of both {prev:?} and {x:?}"));
                        }
                        f.insert(x, y);
                        inv.insert(y, x);
                        todo.push((x, y));
                        Ok(())
                    }
                    (true, false) => Err(format!("{path}: reference {x:?} resolved before and {y:?} resolves to nothing now")),
                }
            }
            (MObj::Array(x), MObj::Array(y)) if x.len() == y.len() => {
                for (i, (p, q)) in x.iter().zip(y).enumerate() {
                    walk(p, q, &format!("{path}[{i}]"), before, after, f, inv, todo)?;
                }
                Ok(())
            }
            (MObj::Dict(x), MObj::Dict(y)) | (MObj::Stream(x, _), MObj::Stream(y, _)) if x.len() == y.len() => {
                if let (MObj::Stream(_, bb), MObj::Stream(_, ab)) = (b, a) {
                    if bb != ab {
                        return Err(format!("{path}: stream body changed"));
                    }
                }
                for ((k1, p), (k2, q)) in x.iter().zip(y) {
                    if k1 != k2 {
                        return Err(format!("{path}: key order/keys changed"));
                    }
                    walk(p, q, &format!("{path}/{}", String::from_utf8_lossy(k1)), before, after, f, inv, todo)?;
                }
                Ok(())
            }
            (x, y) if x == y && !matches!(x, MObj::Array(_) | MObj::Dict(_) | MObj::Stream(..)) => Ok(()),
            (x, y) => Err(format!("{path}: {} became {}", pdfmodel::show(x), pdfmodel::show(y))),
        }
    }
    walk(&MObj::Dict(before.trailer.clone()), &MObj::Dict(after.trailer.clone()), "trailer", before, after, &mut f, &mut inv, &mut todo)
        .map_err(|e| v("renumber-graph-changed", op, e))?;
    while let Some((x, y)) = todo.pop() {
        walk(&before.objects[&x], &after.objects[&y], &format!("{x:?}->{y:?}"), before, after, &mut f, &mut inv, &mut todo).map_err(|e| v("renumber-graph-changed", op, e))?;
    }
    Ok(f)
}

/// compress / decompress: only streams change, only in their encoding.
fn check_recode(before: &MDoc, after: &MDoc, op: &str) -> Result<(), Violation> {
    if before.trailer != after.trailer || before.objects.len() != after.objects.len() {
        return Err(v("object-altered", op, "trailer or object set changed".into()));
    }
    for (id, o) in &before.objects {
        let a = after.objects.get(id).ok_or_else(|| v("object-removed", op, format!("{id:?} disappeared")))?;
        match (o, a) {
            (MObj::Stream(bd, _), MObj::Stream(ad, ab)) => {
                let strip = |d: &MDict| -> MDict { d.iter().filter(|(k, _)| k != b"Filter" && k != b"DecodeParms" && k != b"Length").cloned().collect() };
                let (mut x, mut y) = (strip(bd), strip(ad));
                x.sort_by(|p, q| p.0.cmp(&q.0));
                y.sort_by(|p, q| p.0.cmp(&q.0));
                if x != y {
                    return Err(v("object-altered", op, format!("stream {id:?}: dictionary changed beyond Filter/DecodeParms/Length")));
                }
                if dict_get(ad, b"Length") != Some(&MObj::Int(ab.len() as i64)) {
                    return Err(v("stream-length-wrong", op, format!("stream {id:?}: Length {:?} but {} content bytes", dict_get(ad, b"Length").map(pdfmodel::show), ab.len())));
                }
                match (pagegen::stream_plain(o), pagegen::stream_plain(a)) {
                    (Ok(p), Ok(q)) if p == q => {}
                    (Ok(_), Ok(_)) => return Err(v("stream-content-changed", op, format!("stream {id:?}: decoded content changed"))),
                    (Err(_), _) if o == a => {}
                    (x, y) => return Err(v("stream-content-changed", op, format!("stream {id:?}: not decodable before/after: {:?} / {:?}", x.err(), y.err()))),
                }
            }
            _ if o == a => {}
            _ => return Err(v("object-altered", op, format!("non-stream object {id:?} changed"))),
        }
    }
    Ok(())
}
