//! Minimal `rand` 0.9 API surface backed by the simulator.

pub trait RngCore {
    fn next_u32(&mut self) -> u32;
    fn next_u64(&mut self) -> u64;
    fn fill_bytes(&mut self, dst: &mut [u8]);
}

pub trait CryptoRng: RngCore {}

/// Types that `Rng::fill` can fill.
pub trait Fill {
    fn fill<R: RngCore + ?Sized>(&mut self, rng: &mut R);
}

impl Fill for [u8] {
    fn fill<R: RngCore + ?Sized>(&mut self, rng: &mut R) {
        rng.fill_bytes(self)
    }
}
impl<const N: usize> Fill for [u8; N] {
    fn fill<R: RngCore + ?Sized>(&mut self, rng: &mut R) {
        rng.fill_bytes(&mut self[..])
    }
}
macro_rules! fill_int {
    ($($t:ty),*) => {$(
        impl Fill for [$t] {
            fn fill<R: RngCore + ?Sized>(&mut self, rng: &mut R) {
                for v in self.iter_mut() {
                    let mut b = [0u8; std::mem::size_of::<$t>()];
                    rng.fill_bytes(&mut b);
                    *v = <$t>::from_le_bytes(b);
                }
            }
        }
        impl<const N: usize> Fill for [$t; N] {
            fn fill<R: RngCore + ?Sized>(&mut self, rng: &mut R) {
                Fill::fill(&mut self[..], rng)
            }
        }
    )*};
}
fill_int!(u16, u32, u64, u128, usize, i8, i16, i32, i64, i128, isize);

/// Values `Rng::random` can produce.
pub trait Random: Sized {
    fn random<R: RngCore + ?Sized>(rng: &mut R) -> Self;
}
macro_rules! random_int {
    ($($t:ty),*) => {$(
        impl Random for $t {
            fn random<R: RngCore + ?Sized>(rng: &mut R) -> Self {
                let mut b = [0u8; std::mem::size_of::<$t>()];
                rng.fill_bytes(&mut b);
                <$t>::from_le_bytes(b)
            }
        }
    )*};
}
random_int!(u8, u16, u32, u64, u128, usize, i8, i16, i32, i64, i128, isize);
impl Random for bool {
    fn random<R: RngCore + ?Sized>(rng: &mut R) -> Self {
        let mut b = [0u8; 1];
        rng.fill_bytes(&mut b);
        b[0] & 1 == 1
    }
}
impl<const N: usize> Random for [u8; N] {
    fn random<R: RngCore + ?Sized>(rng: &mut R) -> Self {
        let mut b = [0u8; N];
        rng.fill_bytes(&mut b);
        b
    }
}
impl Random for f64 {
    fn random<R: RngCore + ?Sized>(rng: &mut R) -> Self {
        (rng.next_u64() >> 11) as f64 / (1u64 << 53) as f64
    }
}
impl Random for f32 {
    fn random<R: RngCore + ?Sized>(rng: &mut R) -> Self {
        (rng.next_u32() >> 8) as f32 / (1u32 << 24) as f32
    }
}

pub trait SampleRange<T> {
    fn sample<R: RngCore + ?Sized>(self, rng: &mut R) -> T;
}
macro_rules! range_int {
    ($($t:ty),*) => {$(
        impl SampleRange<$t> for std::ops::Range<$t> {
            fn sample<R: RngCore + ?Sized>(self, rng: &mut R) -> $t {
                assert!(self.start < self.end, "cannot sample empty range");
                let span = (self.end as i128 - self.start as i128) as u128;
                (self.start as i128 + (rng.next_u64() as u128 % span) as i128) as $t
            }
        }
        impl SampleRange<$t> for std::ops::RangeInclusive<$t> {
            fn sample<R: RngCore + ?Sized>(self, rng: &mut R) -> $t {
                let (s, e) = (*self.start(), *self.end());
                assert!(s <= e, "cannot sample empty range");
                let span = (e as i128 - s as i128) as u128 + 1;
                (s as i128 + (rng.next_u64() as u128 % span) as i128) as $t
            }
        }
    )*};
}
range_int!(u8, u16, u32, u64, usize, i8, i16, i32, i64, isize);

pub trait Rng: RngCore {
    fn fill<T: Fill + ?Sized>(&mut self, dest: &mut T) {
        dest.fill(self)
    }
    fn random<T: Random>(&mut self) -> T {
        T::random(self)
    }
    fn random_range<T, S: SampleRange<T>>(&mut self, range: S) -> T {
        range.sample(self)
    }
    fn random_bool(&mut self, p: f64) -> bool {
        let x: f64 = self.random();
        x < p
    }
}
impl<R: RngCore + ?Sized> Rng for R {}

pub mod rngs {
    /// Stand-in for `rand::rngs::ThreadRng` / `OsRng` / `StdRng`.
    #[derive(Clone, Debug, Default)]
    pub struct ThreadRng(pub(crate) ());
    pub type OsRng = ThreadRng;
    pub type StdRng = ThreadRng;
    impl super::RngCore for ThreadRng {
        fn next_u32(&mut self) -> u32 {
            let mut b = [0u8; 4];
            simhook::fill(&mut b);
            u32::from_le_bytes(b)
        }
        fn next_u64(&mut self) -> u64 {
            let mut b = [0u8; 8];
            simhook::fill(&mut b);
            u64::from_le_bytes(b)
        }
        fn fill_bytes(&mut self, dst: &mut [u8]) {
            simhook::fill(dst)
        }
    }
    impl super::CryptoRng for ThreadRng {}
}

pub fn rng() -> rngs::ThreadRng {
    rngs::ThreadRng(())
}
#[deprecated]
pub fn thread_rng() -> rngs::ThreadRng {
    rngs::ThreadRng(())
}
pub fn random<T: Random>() -> T {
    T::random(&mut rng())
}
pub fn random_range<T, S: SampleRange<T>>(range: S) -> T {
    range.sample(&mut rng())
}
pub fn random_bool(p: f64) -> bool {
    rng().random_bool(p)
}
pub fn fill<T: Fill + ?Sized>(dest: &mut T) {
    dest.fill(&mut rng())
}

pub mod prelude {
    pub use super::rngs::ThreadRng;
    pub use super::{CryptoRng, Rng, RngCore};
}
