//! Parallel-iterator subset. Every pipeline is "base items + per-item stages";
//! the terminal operation asks the simulator for the completion order.

use std::cmp::Ordering;

/// Drives a pipeline: the base items are run through all stages one item at a
/// time in the order the simulator chose. `on_item(idx, value)` receives each
/// produced value (idx = position of the base item); returning `true` stops
/// the section early (short-circuiting consumers).
fn drive<P: ParallelIterator>(mut p: P, mut on_item: impl FnMut(usize, P::Item) -> bool) {
    let base = p.take_base();
    let n = base.len();
    if n >= 2 {
        if let Some((workers, chooser)) = simhook::mode_t(n) {
            return drive_threads(p, base, workers, chooser, on_item);
        }
    }
    let mut order = simhook::order(n, std::any::type_name::<P>());
    // Tolerate a sloppy hook: whatever is missing from the permutation runs last, in order.
    let mut seen = vec![false; n];
    order.retain(|&i| i < n && !std::mem::replace(&mut seen[i], true));
    order.extend((0..n).filter(|&i| !seen[i]));
    let mut slots: Vec<Option<P::Base>> = base.into_iter().map(Some).collect();
    let mut stop = false;
    for i in order {
        if stop {
            break;
        }
        if let Some(b) = slots[i].take() {
            p.process(i, b, &mut |x| {
                if !stop && on_item(i, x) {
                    stop = true;
                }
            });
        }
    }
}

/// Upstream reduces partial results pairwise in a tree whose shape depends on how the work was
/// split: here adjacent values (left operand = earlier positions) are combined in an order the
/// simulator chooses.
fn reduce_adjacent<T>(v: Vec<T>, op: &impl Fn(T, T) -> T) -> Option<T> {
    let mut v: Vec<Option<T>> = v.into_iter().map(Some).collect();
    while v.len() > 1 {
        let i = simhook::choose(v.len() - 1, "reduce-pair");
        let b = v.remove(i + 1).unwrap();
        let a = v[i].take().unwrap();
        v[i] = Some(op(a, b));
    }
    v.pop().flatten()
}

struct AssertSync<T>(T);
// Only `process(&self, ..)` is called through this wrapper from several threads; the stages'
// closures are `Sync` by the bounds on the adaptors and the base holds no items any more.
unsafe impl<T> Sync for AssertSync<T> {}
unsafe impl<T> Send for AssertSync<T> {}

/// Mode T: the section runs on real threads (2 MiB stacks, like upstream's workers); exactly one
/// of them holds the simulator's baton at any time. Scheduling points: before claiming an item,
/// at (seam) mutex operations, at the end of a worker. Which unclaimed item a worker takes is
/// the scheduler's choice too.
fn drive_threads<P: ParallelIterator>(
    p: P, base: Vec<P::Base>, workers: usize, chooser: simhook::baton::Chooser, mut on_item: impl FnMut(usize, P::Item) -> bool,
) {
    use std::sync::atomic::{AtomicUsize, Ordering};
    use std::sync::Mutex;
    let n = base.len();
    let w = workers.clamp(1, n);
    let sched = simhook::baton::Sched::new(w, chooser);
    let slots: Mutex<Vec<Option<P::Base>>> = Mutex::new(base.into_iter().map(Some).collect());
    let remaining: Mutex<Vec<usize>> = Mutex::new((0..n).collect());
    let seq = AtomicUsize::new(0);
    let shared = AssertSync(&p);
    let mut produced: Vec<(usize, usize, P::Item)> = Vec::new();
    let mut panic_payload = None;
    std::thread::scope(|scope| {
        let handles: Vec<_> = (0..w)
            .map(|t| {
                let (sched, slots, remaining, seq, shared) = (&sched, &slots, &remaining, &seq, &shared);
                std::thread::Builder::new()
                    .stack_size(2 << 20)
                    .spawn_scoped(scope, move || {
                        sched.enter(t);
                        let r = std::panic::catch_unwind(std::panic::AssertUnwindSafe(|| {
                            let mut out: Vec<(usize, usize, P::Item)> = Vec::new();
                            loop {
                                sched.yield_point(t, "claim");
                                let claimed = {
                                    let mut rem = remaining.lock().unwrap();
                                    if rem.is_empty() {
                                        None
                                    } else {
                                        let k = sched.choose(rem.len(), "claim-item");
                                        let i = rem.remove(k);
                                        Some((i, slots.lock().unwrap()[i].take().expect("item claimed twice")))
                                    }
                                };
                                let Some((i, b)) = claimed else { break };
                                // code of the system under simulation: allocation points may preempt here
                                let _active = simhook::baton::Active::new();
                                shared.0.process(i, b, &mut |x| {
                                    let _s = simhook::baton::Suspend::new();
                                    out.push((seq.fetch_add(1, Ordering::SeqCst), i, x))
                                });
                            }
                            out
                        }));
                        sched.finish(t);
                        r
                    })
                    .expect("spawn simulated worker")
            })
            .collect();
        sched.start();
        for h in handles {
            match h.join() {
                Ok(Ok(out)) => produced.extend(out),
                Ok(Err(p)) | Err(p) => panic_payload = Some(p),
            }
        }
    });
    if let Some(p) = panic_payload {
        std::panic::resume_unwind(p);
    }
    // consumers see the values in completion order
    produced.sort_by_key(|(s, _, _)| *s);
    for (_, i, x) in produced {
        if on_item(i, x) {
            break;
        }
    }
}

/// Runs the whole section and returns the produced values in *position* order.
fn run_ordered<P: ParallelIterator>(p: P) -> Vec<P::Item> {
    p.ordered_vec()
}

fn run_ordered_default<P: ParallelIterator>(p: P) -> Vec<P::Item> {
    let mut out: Vec<(usize, P::Item)> = Vec::new();
    let positional = p.preserves_order();
    drive(p, |i, x| {
        out.push((i, x));
        false
    });
    // stable: values of one base item keep their production order
    if positional {
        out.sort_by_key(|(i, _)| *i);
    }
    out.into_iter().map(|(_, x)| x).collect()
}

pub trait ParallelIterator: Sized + Send {
    type Item: Send;
    #[doc(hidden)]
    type Base: Send;
    #[doc(hidden)]
    fn take_base(&mut self) -> Vec<Self::Base>;
    #[doc(hidden)]
    fn process(&self, idx: usize, b: Self::Base, out: &mut dyn FnMut(Self::Item));
    #[doc(hidden)]
    fn ordered_vec(self) -> Vec<Self::Item> {
        run_ordered_default(self)
    }
    /// False below a `par_bridge()`: upstream hands the items of a bridged iterator to whichever
    /// worker asks next and keeps no positions, so `collect` sees them in completion order.
    #[doc(hidden)]
    fn preserves_order(&self) -> bool {
        true
    }

    fn map<F, R>(self, f: F) -> Map<Self, F>
    where
        F: Fn(Self::Item) -> R + Sync + Send,
        R: Send,
    {
        Map { p: self, f }
    }
    fn filter<F>(self, f: F) -> Filter<Self, F>
    where
        F: Fn(&Self::Item) -> bool + Sync + Send,
    {
        Filter { p: self, f }
    }
    fn filter_map<F, R>(self, f: F) -> FilterMap<Self, F>
    where
        F: Fn(Self::Item) -> Option<R> + Sync + Send,
        R: Send,
    {
        FilterMap { p: self, f }
    }
    fn flat_map<F, PI>(self, f: F) -> FlatMap<Self, F>
    where
        F: Fn(Self::Item) -> PI + Sync + Send,
        PI: IntoParallelIterator,
    {
        FlatMap { p: self, f }
    }
    fn flat_map_iter<F, SI>(self, f: F) -> FlatMapIter<Self, F>
    where
        F: Fn(Self::Item) -> SI + Sync + Send,
        SI: IntoIterator,
        SI::Item: Send,
    {
        FlatMapIter { p: self, f }
    }
    /// Upstream creates one state per *job*, i.e. per piece of the split input; how the input is
    /// split is the scheduler's business. Here the simulator draws the split points, and a state
    /// is only ever reused for a later position of the same piece (see `StatePool`).
    fn map_init<INIT, T, F, R>(self, init: INIT, f: F) -> MapInit<Self, INIT, T, F>
    where
        INIT: Fn() -> T + Sync + Send,
        T: Send,
        F: Fn(&mut T, Self::Item) -> R + Sync + Send,
        R: Send,
    {
        MapInit { p: self, init, f, pool: StatePool::default() }
    }
    fn map_with<T, F, R>(self, init: T, f: F) -> MapWith<Self, T, F>
    where
        T: Send + Clone,
        F: Fn(&mut T, Self::Item) -> R + Sync + Send,
        R: Send,
    {
        MapWith { p: self, init: std::sync::Mutex::new(init), f, pool: StatePool::default() }
    }
    fn for_each_init<INIT, T, F>(self, init: INIT, f: F)
    where
        INIT: Fn() -> T + Sync + Send,
        T: Send,
        F: Fn(&mut T, Self::Item) + Sync + Send,
    {
        drive(self.map_init(init, f), |_, ()| false)
    }
    fn for_each_with<T, F>(self, init: T, f: F)
    where
        T: Send + Clone,
        F: Fn(&mut T, Self::Item) + Sync + Send,
    {
        drive(self.map_with(init, f), |_, ()| false)
    }
    fn flatten(self) -> FlatMap<Self, fn(Self::Item) -> Self::Item>
    where
        Self::Item: IntoParallelIterator,
    {
        fn id<T>(x: T) -> T {
            x
        }
        FlatMap { p: self, f: id::<Self::Item> as fn(Self::Item) -> Self::Item }
    }
    fn flatten_iter(self) -> FlatMapIter<Self, fn(Self::Item) -> Self::Item>
    where
        Self::Item: IntoIterator,
        <Self::Item as IntoIterator>::Item: Send,
    {
        fn id<T>(x: T) -> T {
            x
        }
        FlatMapIter { p: self, f: id::<Self::Item> as fn(Self::Item) -> Self::Item }
    }
    fn inspect<F>(self, f: F) -> Inspect<Self, F>
    where
        F: Fn(&Self::Item) + Sync + Send,
    {
        Inspect { p: self, f }
    }
    fn cloned<'a, T>(self) -> Map<Self, fn(&'a T) -> T>
    where
        T: 'a + Clone + Send + Sync,
        Self: ParallelIterator<Item = &'a T>,
    {
        Map { p: self, f: <T as Clone>::clone as fn(&'a T) -> T }
    }
    fn copied<'a, T>(self) -> Map<Self, fn(&'a T) -> T>
    where
        T: 'a + Copy + Send + Sync,
        Self: ParallelIterator<Item = &'a T>,
    {
        fn cp<'a, T: Copy>(x: &'a T) -> T {
            *x
        }
        Map { p: self, f: cp::<T> as fn(&'a T) -> T }
    }

    fn for_each<F>(self, f: F)
    where
        F: Fn(Self::Item) + Sync + Send,
    {
        drive(Map { p: self, f }, |_, ()| false)
    }
    fn collect<C>(self) -> C
    where
        C: FromParallelIterator<Self::Item>,
    {
        C::from_par_iter(IterBase { items: run_ordered(self) })
    }
    fn count(self) -> usize {
        run_ordered(self).len()
    }
    fn sum<S>(self) -> S
    where
        S: Send + std::iter::Sum<Self::Item>,
    {
        run_ordered(self).into_iter().sum()
    }
    fn product<S>(self) -> S
    where
        S: Send + std::iter::Product<Self::Item>,
    {
        run_ordered(self).into_iter().product()
    }
    fn min(self) -> Option<Self::Item>
    where
        Self::Item: Ord,
    {
        run_ordered(self).into_iter().min()
    }
    fn max(self) -> Option<Self::Item>
    where
        Self::Item: Ord,
    {
        run_ordered(self).into_iter().max()
    }
    fn min_by<F>(self, f: F) -> Option<Self::Item>
    where
        F: Fn(&Self::Item, &Self::Item) -> Ordering + Sync + Send,
    {
        run_ordered(self).into_iter().min_by(|a, b| f(a, b))
    }
    fn max_by<F>(self, f: F) -> Option<Self::Item>
    where
        F: Fn(&Self::Item, &Self::Item) -> Ordering + Sync + Send,
    {
        run_ordered(self).into_iter().max_by(|a, b| f(a, b))
    }
    fn min_by_key<K: Ord + Send, F>(self, f: F) -> Option<Self::Item>
    where
        F: Fn(&Self::Item) -> K + Sync + Send,
    {
        run_ordered(self).into_iter().min_by_key(|a| f(a))
    }
    fn max_by_key<K: Ord + Send, F>(self, f: F) -> Option<Self::Item>
    where
        F: Fn(&Self::Item) -> K + Sync + Send,
    {
        run_ordered(self).into_iter().max_by_key(|a| f(a))
    }
    fn reduce<OP, ID>(self, identity: ID, op: OP) -> Self::Item
    where
        OP: Fn(Self::Item, Self::Item) -> Self::Item + Sync + Send,
        ID: Fn() -> Self::Item + Sync + Send,
    {
        reduce_adjacent(run_ordered(self), &op).unwrap_or_else(identity)
    }
    fn reduce_with<OP>(self, op: OP) -> Option<Self::Item>
    where
        OP: Fn(Self::Item, Self::Item) -> Self::Item + Sync + Send,
    {
        reduce_adjacent(run_ordered(self), &op)
    }
    /// Upstream yields one accumulator per work split: the items are cut into a
    /// simulator-chosen number of contiguous pieces, each folded left to right.
    fn fold<T, ID, F>(self, identity: ID, fold_op: F) -> IterBase<T>
    where
        F: Fn(T, Self::Item) -> T + Sync + Send,
        ID: Fn() -> T + Sync + Send,
        T: Send,
    {
        let items = run_ordered(self);
        let n = items.len();
        let pieces = 1 + simhook::choose(n.clamp(1, 8), "fold-pieces");
        // piece boundaries: `pieces - 1` cut points in 1..n
        let mut cuts: Vec<usize> = (0..pieces.saturating_sub(1)).map(|_| 1 + simhook::choose(n.max(2) - 1, "fold-cut")).collect();
        cuts.sort();
        cuts.dedup();
        let mut accs = Vec::new();
        let mut acc = identity();
        for (i, x) in items.into_iter().enumerate() {
            if cuts.contains(&i) {
                accs.push(std::mem::replace(&mut acc, identity()));
            }
            acc = fold_op(acc, x);
        }
        accs.push(acc);
        IterBase { items: accs }
    }
    fn any<F>(self, f: F) -> bool
    where
        F: Fn(Self::Item) -> bool + Sync + Send,
    {
        let mut hit = false;
        drive(self, |_, x| {
            if f(x) {
                hit = true;
            }
            hit
        });
        hit
    }
    fn all<F>(self, f: F) -> bool
    where
        F: Fn(Self::Item) -> bool + Sync + Send,
    {
        let mut ok = true;
        drive(self, |_, x| {
            if !f(x) {
                ok = false;
            }
            !ok
        });
        ok
    }
    /// First match in *completion* order (the nondeterministic one upstream).
    fn find_any<F>(self, f: F) -> Option<Self::Item>
    where
        F: Fn(&Self::Item) -> bool + Sync + Send,
    {
        let mut hit = None;
        drive(self, |_, x| {
            if f(&x) {
                hit = Some(x);
                true
            } else {
                false
            }
        });
        hit
    }
    fn find_first<F>(self, f: F) -> Option<Self::Item>
    where
        F: Fn(&Self::Item) -> bool + Sync + Send,
    {
        run_ordered(self.filter(f)).into_iter().next()
    }
    fn find_map_any<F, R: Send>(self, f: F) -> Option<R>
    where
        F: Fn(Self::Item) -> Option<R> + Sync + Send,
    {
        let mut hit = None;
        drive(self, |_, x| {
            if let Some(r) = f(x) {
                hit = Some(r);
                true
            } else {
                false
            }
        });
        hit
    }
    fn find_map_first<F, R: Send>(self, f: F) -> Option<R>
    where
        F: Fn(Self::Item) -> Option<R> + Sync + Send,
    {
        run_ordered(self.filter_map(f)).into_iter().next()
    }
    fn partition<A, B, F>(self, f: F) -> (A, B)
    where
        A: Default + Extend<Self::Item>,
        B: Default + Extend<Self::Item>,
        F: Fn(&Self::Item) -> bool + Sync + Send,
    {
        let (mut a, mut b) = (A::default(), B::default());
        for x in run_ordered(self) {
            if f(&x) {
                a.extend(Some(x));
            } else {
                b.extend(Some(x));
            }
        }
        (a, b)
    }
    fn unzip<A, B, FromA, FromB>(self) -> (FromA, FromB)
    where
        Self: ParallelIterator<Item = (A, B)>,
        FromA: Default + Extend<A>,
        FromB: Default + Extend<B>,
        A: Send,
        B: Send,
    {
        let (mut a, mut b) = (FromA::default(), FromB::default());
        for (x, y) in run_ordered(self) {
            a.extend(Some(x));
            b.extend(Some(y));
        }
        (a, b)
    }
}

pub trait IndexedParallelIterator: ParallelIterator {
    fn enumerate(self) -> Enumerate<Self> {
        Enumerate { p: self }
    }
    fn with_min_len(self, _min: usize) -> Self {
        self
    }
    fn with_max_len(self, _max: usize) -> Self {
        self
    }
    fn collect_into_vec(self, target: &mut Vec<Self::Item>) {
        *target = run_ordered(self);
    }
    fn zip<Z>(self, other: Z) -> IterBase<(Self::Item, <Z::Iter as ParallelIterator>::Item)>
    where
        Z: IntoParallelIterator,
        Z::Iter: IndexedParallelIterator,
    {
        let a = run_ordered(self);
        let b = run_ordered(other.into_par_iter());
        IterBase { items: a.into_iter().zip(b).collect() }
    }
}

// ---------------------------------------------------------------- base + stages

pub struct IterBase<T> {
    pub(crate) items: Vec<T>,
}
impl<T: Send> ParallelIterator for IterBase<T> {
    type Item = T;
    type Base = T;
    fn take_base(&mut self) -> Vec<T> {
        std::mem::take(&mut self.items)
    }
    fn process(&self, _idx: usize, b: T, out: &mut dyn FnMut(T)) {
        out(b)
    }
    // no stage has run yet: nothing observable depends on an order
    fn ordered_vec(self) -> Vec<T> {
        self.items
    }
}
impl<T: Send> IndexedParallelIterator for IterBase<T> {}
impl<T> IntoIterator for IterBase<T> {
    type Item = T;
    type IntoIter = std::vec::IntoIter<T>;
    fn into_iter(self) -> Self::IntoIter {
        self.items.into_iter()
    }
}

pub struct Map<P, F> {
    p: P,
    f: F,
}
impl<P, F, R> ParallelIterator for Map<P, F>
where
    P: ParallelIterator,
    F: Fn(P::Item) -> R + Sync + Send,
    R: Send,
{
    type Item = R;
    type Base = P::Base;
    fn take_base(&mut self) -> Vec<P::Base> {
        self.p.take_base()
    }
    fn preserves_order(&self) -> bool {
        self.p.preserves_order()
    }
    fn process(&self, idx: usize, b: P::Base, out: &mut dyn FnMut(R)) {
        self.p.process(idx, b, &mut |x| out((self.f)(x)))
    }
}
impl<P, F, R> IndexedParallelIterator for Map<P, F>
where
    P: IndexedParallelIterator,
    F: Fn(P::Item) -> R + Sync + Send,
    R: Send,
{
}

/// Per-job states of `map_init` / `map_with`. The input is cut into contiguous pieces at split
/// points the simulator draws; a state is handed to an item only if it last served an earlier
/// position of the same piece (a piece whose later part ran first was split there and gets a
/// fresh state, as a stolen half does upstream). A state in use by a preempted worker (Mode T) is
/// simply not in the pool, so the next item of that piece starts a fresh one.
pub struct StatePool<T> {
    piece_of: Vec<usize>,
    idle: std::sync::Mutex<Vec<(usize, usize, T)>>, // (piece, last position served, state)
}
impl<T> Default for StatePool<T> {
    fn default() -> Self {
        StatePool { piece_of: Vec::new(), idle: std::sync::Mutex::new(Vec::new()) }
    }
}
impl<T> StatePool<T> {
    fn plan(&mut self, n: usize) {
        let mut piece = 0;
        self.piece_of = (0..n)
            .map(|i| {
                if i > 0 && simhook::choose(4, "map-init-split") == 0 {
                    piece += 1;
                }
                piece
            })
            .collect();
    }
    fn take(&self, idx: usize) -> Option<T> {
        let _s = simhook::baton::Suspend::new();
        let piece = self.piece_of.get(idx).copied().unwrap_or(usize::MAX);
        let mut idle = self.idle.lock().unwrap_or_else(|e| e.into_inner());
        let best = idle
            .iter()
            .enumerate()
            .filter(|(_, (p, last, _))| *p == piece && *last < idx)
            .max_by_key(|(_, (_, last, _))| *last)
            .map(|(k, _)| k)?;
        Some(idle.swap_remove(best).2)
    }
    fn put(&self, idx: usize, state: T) {
        let _s = simhook::baton::Suspend::new();
        let piece = self.piece_of.get(idx).copied().unwrap_or(usize::MAX);
        self.idle.lock().unwrap_or_else(|e| e.into_inner()).push((piece, idx, state));
    }
}

pub struct MapInit<P, INIT, T, F> {
    p: P,
    init: INIT,
    f: F,
    pool: StatePool<T>,
}
impl<P, INIT, T, F, R> ParallelIterator for MapInit<P, INIT, T, F>
where
    P: ParallelIterator,
    INIT: Fn() -> T + Sync + Send,
    T: Send,
    F: Fn(&mut T, P::Item) -> R + Sync + Send,
    R: Send,
{
    type Item = R;
    type Base = P::Base;
    fn take_base(&mut self) -> Vec<P::Base> {
        let base = self.p.take_base();
        self.pool.plan(base.len());
        base
    }
    fn preserves_order(&self) -> bool {
        self.p.preserves_order()
    }
    fn process(&self, idx: usize, b: P::Base, out: &mut dyn FnMut(R)) {
        let mut state = Some(self.pool.take(idx).unwrap_or_else(|| (self.init)()));
        self.p.process(idx, b, &mut |x| out((self.f)(state.as_mut().unwrap(), x)));
        self.pool.put(idx, state.take().unwrap());
    }
}

pub struct MapWith<P, T, F> {
    p: P,
    init: std::sync::Mutex<T>,
    f: F,
    pool: StatePool<T>,
}
impl<P, T, F, R> ParallelIterator for MapWith<P, T, F>
where
    P: ParallelIterator,
    T: Send + Clone,
    F: Fn(&mut T, P::Item) -> R + Sync + Send,
    R: Send,
{
    type Item = R;
    type Base = P::Base;
    fn take_base(&mut self) -> Vec<P::Base> {
        let base = self.p.take_base();
        self.pool.plan(base.len());
        base
    }
    fn preserves_order(&self) -> bool {
        self.p.preserves_order()
    }
    fn process(&self, idx: usize, b: P::Base, out: &mut dyn FnMut(R)) {
        let fresh = || {
            let _s = simhook::baton::Suspend::new();
            self.init.lock().unwrap_or_else(|e| e.into_inner()).clone()
        };
        let mut state = Some(self.pool.take(idx).unwrap_or_else(fresh));
        self.p.process(idx, b, &mut |x| out((self.f)(state.as_mut().unwrap(), x)));
        self.pool.put(idx, state.take().unwrap());
    }
}

pub struct Inspect<P, F> {
    p: P,
    f: F,
}
impl<P, F> ParallelIterator for Inspect<P, F>
where
    P: ParallelIterator,
    F: Fn(&P::Item) + Sync + Send,
{
    type Item = P::Item;
    type Base = P::Base;
    fn take_base(&mut self) -> Vec<P::Base> {
        self.p.take_base()
    }
    fn preserves_order(&self) -> bool {
        self.p.preserves_order()
    }
    fn process(&self, idx: usize, b: P::Base, out: &mut dyn FnMut(P::Item)) {
        self.p.process(idx, b, &mut |x| {
            (self.f)(&x);
            out(x)
        })
    }
}
impl<P: IndexedParallelIterator, F: Fn(&P::Item) + Sync + Send> IndexedParallelIterator for Inspect<P, F> {}

pub struct Filter<P, F> {
    p: P,
    f: F,
}
impl<P, F> ParallelIterator for Filter<P, F>
where
    P: ParallelIterator,
    F: Fn(&P::Item) -> bool + Sync + Send,
{
    type Item = P::Item;
    type Base = P::Base;
    fn take_base(&mut self) -> Vec<P::Base> {
        self.p.take_base()
    }
    fn preserves_order(&self) -> bool {
        self.p.preserves_order()
    }
    fn process(&self, idx: usize, b: P::Base, out: &mut dyn FnMut(P::Item)) {
        self.p.process(idx, b, &mut |x| {
            if (self.f)(&x) {
                out(x)
            }
        })
    }
}

pub struct FilterMap<P, F> {
    p: P,
    f: F,
}
impl<P, F, R> ParallelIterator for FilterMap<P, F>
where
    P: ParallelIterator,
    F: Fn(P::Item) -> Option<R> + Sync + Send,
    R: Send,
{
    type Item = R;
    type Base = P::Base;
    fn take_base(&mut self) -> Vec<P::Base> {
        self.p.take_base()
    }
    fn preserves_order(&self) -> bool {
        self.p.preserves_order()
    }
    fn process(&self, idx: usize, b: P::Base, out: &mut dyn FnMut(R)) {
        self.p.process(idx, b, &mut |x| {
            if let Some(r) = (self.f)(x) {
                out(r)
            }
        })
    }
}

pub struct FlatMap<P, F> {
    p: P,
    f: F,
}
impl<P, F, PI> ParallelIterator for FlatMap<P, F>
where
    P: ParallelIterator,
    F: Fn(P::Item) -> PI + Sync + Send,
    PI: IntoParallelIterator,
{
    type Item = <PI::Iter as ParallelIterator>::Item;
    type Base = P::Base;
    fn take_base(&mut self) -> Vec<P::Base> {
        self.p.take_base()
    }
    fn preserves_order(&self) -> bool {
        self.p.preserves_order()
    }
    fn process(&self, idx: usize, b: P::Base, out: &mut dyn FnMut(Self::Item)) {
        self.p.process(idx, b, &mut |x| {
            // nested parallel section: its own completion order
            for v in run_ordered((self.f)(x).into_par_iter()) {
                out(v)
            }
        })
    }
}

pub struct FlatMapIter<P, F> {
    p: P,
    f: F,
}
impl<P, F, SI> ParallelIterator for FlatMapIter<P, F>
where
    P: ParallelIterator,
    F: Fn(P::Item) -> SI + Sync + Send,
    SI: IntoIterator,
    SI::Item: Send,
{
    type Item = SI::Item;
    type Base = P::Base;
    fn take_base(&mut self) -> Vec<P::Base> {
        self.p.take_base()
    }
    fn preserves_order(&self) -> bool {
        self.p.preserves_order()
    }
    fn process(&self, idx: usize, b: P::Base, out: &mut dyn FnMut(SI::Item)) {
        self.p.process(idx, b, &mut |x| {
            for v in (self.f)(x) {
                out(v)
            }
        })
    }
}

pub struct Enumerate<P> {
    p: P,
}
impl<P: IndexedParallelIterator> ParallelIterator for Enumerate<P> {
    type Item = (usize, P::Item);
    type Base = P::Base;
    fn take_base(&mut self) -> Vec<P::Base> {
        self.p.take_base()
    }
    fn process(&self, idx: usize, b: P::Base, out: &mut dyn FnMut(Self::Item)) {
        self.p.process(idx, b, &mut |x| out((idx, x)))
    }
}
impl<P: IndexedParallelIterator> IndexedParallelIterator for Enumerate<P> {}

// ---------------------------------------------------------------- entry points

pub trait IntoParallelIterator {
    type Iter: ParallelIterator<Item = Self::Item>;
    type Item: Send;
    fn into_par_iter(self) -> Self::Iter;
}
impl<T> IntoParallelIterator for T
where
    T: IntoIterator,
    T::Item: Send,
{
    type Iter = IterBase<T::Item>;
    type Item = T::Item;
    fn into_par_iter(self) -> IterBase<T::Item> {
        IterBase { items: self.into_iter().collect() }
    }
}

pub trait IntoParallelRefIterator<'data> {
    type Iter: ParallelIterator<Item = Self::Item>;
    type Item: Send + 'data;
    fn par_iter(&'data self) -> Self::Iter;
}
impl<'data, I: 'data + ?Sized> IntoParallelRefIterator<'data> for I
where
    &'data I: IntoParallelIterator,
{
    type Iter = <&'data I as IntoParallelIterator>::Iter;
    type Item = <&'data I as IntoParallelIterator>::Item;
    fn par_iter(&'data self) -> Self::Iter {
        self.into_par_iter()
    }
}

pub trait IntoParallelRefMutIterator<'data> {
    type Iter: ParallelIterator<Item = Self::Item>;
    type Item: Send + 'data;
    fn par_iter_mut(&'data mut self) -> Self::Iter;
}
impl<'data, I: 'data + ?Sized> IntoParallelRefMutIterator<'data> for I
where
    &'data mut I: IntoParallelIterator,
{
    type Iter = <&'data mut I as IntoParallelIterator>::Iter;
    type Item = <&'data mut I as IntoParallelIterator>::Item;
    fn par_iter_mut(&'data mut self) -> Self::Iter {
        self.into_par_iter()
    }
}

/// `iter.par_bridge()`: a parallel iterator without positions (not indexed).
pub struct Bridge<T> {
    items: Vec<T>,
}
impl<T: Send> ParallelIterator for Bridge<T> {
    type Item = T;
    type Base = T;
    fn take_base(&mut self) -> Vec<T> {
        std::mem::take(&mut self.items)
    }
    fn process(&self, _idx: usize, b: T, out: &mut dyn FnMut(T)) {
        out(b)
    }
    fn preserves_order(&self) -> bool {
        false
    }
}
impl<T> IntoIterator for Bridge<T> {
    type Item = T;
    type IntoIter = std::vec::IntoIter<T>;
    fn into_iter(self) -> Self::IntoIter {
        self.items.into_iter()
    }
}

pub trait ParallelBridge: Sized {
    type Item: Send;
    fn par_bridge(self) -> Bridge<Self::Item>;
}
impl<T: Iterator + Send> ParallelBridge for T
where
    T::Item: Send,
{
    type Item = T::Item;
    fn par_bridge(self) -> Bridge<T::Item> {
        Bridge { items: self.collect() }
    }
}

pub trait FromParallelIterator<T: Send> {
    fn from_par_iter<I>(par_iter: I) -> Self
    where
        I: IntoParallelIterator<Item = T>;
}
impl<T: Send, C: FromIterator<T>> FromParallelIterator<T> for C {
    fn from_par_iter<I>(par_iter: I) -> Self
    where
        I: IntoParallelIterator<Item = T>,
    {
        run_ordered(par_iter.into_par_iter()).into_iter().collect()
    }
}

pub trait ParallelExtend<T: Send> {
    fn par_extend<I>(&mut self, par_iter: I)
    where
        I: IntoParallelIterator<Item = T>;
}
impl<T: Send, C: Extend<T>> ParallelExtend<T> for C {
    fn par_extend<I>(&mut self, par_iter: I)
    where
        I: IntoParallelIterator<Item = T>,
    {
        self.extend(run_ordered(par_iter.into_par_iter()))
    }
}

// Adaptors are also `IntoIterator` (running the section), so that the blanket
// `IntoParallelIterator for T: IntoIterator` covers them, as upstream's
// `impl<T: ParallelIterator> IntoParallelIterator for T` does.
macro_rules! adaptor_into_iter {
    ($name:ident < $($g:ident),* >) => {
        impl<$($g),*> IntoIterator for $name<$($g),*>
        where
            $name<$($g),*>: ParallelIterator,
        {
            type Item = <Self as ParallelIterator>::Item;
            type IntoIter = std::vec::IntoIter<<Self as ParallelIterator>::Item>;
            fn into_iter(self) -> Self::IntoIter {
                run_ordered(self).into_iter()
            }
        }
    };
}
adaptor_into_iter!(Map<P, F>);
adaptor_into_iter!(Inspect<P, F>);
adaptor_into_iter!(Filter<P, F>);
adaptor_into_iter!(FilterMap<P, F>);
adaptor_into_iter!(FlatMap<P, F>);
adaptor_into_iter!(FlatMapIter<P, F>);
adaptor_into_iter!(Enumerate<P>);
adaptor_into_iter!(MapInit<P, INIT, T, F>);
adaptor_into_iter!(MapWith<P, T, F>);
