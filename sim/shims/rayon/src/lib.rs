//! Simulator-owned stand-in for `rayon`.
//!
//! Contract kept from upstream: `collect` and friends are position-ordered;
//! side effects of the closures happen in *completion order*. Upstream decides
//! the completion order with a work-stealing pool; here the simulator decides
//! it (`simhook::order`), one item at a time, on the calling thread. A whole
//! pipeline (`map`/`filter_map`/... stages) runs per item, like upstream.

pub mod iter;
pub mod slice;

pub mod prelude {
    pub use crate::iter::{
        FromParallelIterator, IndexedParallelIterator, IntoParallelIterator, IntoParallelRefIterator,
        IntoParallelRefMutIterator, ParallelBridge, ParallelExtend, ParallelIterator,
    };
    pub use crate::slice::{ParallelSlice, ParallelSliceMut};
}

/// Runs both closures; which one completes first is the simulator's choice.
pub fn join<A, B, RA, RB>(a: A, b: B) -> (RA, RB)
where
    A: FnOnce() -> RA + Send,
    B: FnOnce() -> RB + Send,
    RA: Send,
    RB: Send,
{
    if simhook::flip("rayon::join") {
        let rb = b();
        let ra = a();
        (ra, rb)
    } else {
        let ra = a();
        let rb = b();
        (ra, rb)
    }
}

pub fn current_num_threads() -> usize {
    simhook::num_threads()
}

pub fn current_thread_index() -> Option<usize> {
    None
}

#[cfg(test)]
mod state_adaptor_tests {
    use crate::prelude::*;
    use std::sync::atomic::{AtomicUsize, Ordering};

    #[test]
    fn map_init_keeps_positions_and_bounds_inits() {
        let inits = AtomicUsize::new(0);
        let v: Vec<u32> = (0..50).collect();
        let out: Vec<u32> = v
            .par_iter()
            .map_init(
                || {
                    inits.fetch_add(1, Ordering::SeqCst);
                    Vec::<u32>::new()
                },
                |seen, &x| {
                    seen.push(x);
                    // a state only ever serves increasing positions
                    assert!(seen.windows(2).all(|w| w[0] < w[1]));
                    (x % 3 == 0).then_some(x * 2)
                },
            )
            .flatten()
            .collect();
        assert_eq!(out, (0..50).filter(|x| x % 3 == 0).map(|x| x * 2).collect::<Vec<_>>());
        let n = inits.load(Ordering::SeqCst);
        assert!((1..=50).contains(&n));
    }

    #[test]
    fn map_with_and_for_each_variants() {
        let v: Vec<u32> = (0..20).collect();
        let out: Vec<u32> = v.par_iter().map_with(100u32, |base, &x| *base + x).collect();
        assert_eq!(out, (100..120).collect::<Vec<_>>());
        let total = AtomicUsize::new(0);
        v.par_iter().for_each_with(1usize, |one, _| {
            total.fetch_add(*one, Ordering::SeqCst);
        });
        v.par_iter().for_each_init(|| 1usize, |one, _| {
            total.fetch_add(*one, Ordering::SeqCst);
        });
        assert_eq!(total.load(Ordering::SeqCst), 40);
        let nested: Vec<u32> = vec![vec![1u32, 2], vec![], vec![3]].into_par_iter().flatten_iter().collect();
        assert_eq!(nested, vec![1, 2, 3]);
    }
}
