//! Simulator-owned stand-in for `rayon`.
//!
//! Contract kept from upstream: `collect` and friends are position-ordered;
//! side effects of the closures happen in *completion order*. Upstream decides
//! the completion order with a work-stealing pool; here the simulator decides
//! it (`simhook::order`), one item at a time, on the calling thread. A whole
//! pipeline (`map`/`filter_map`/... stages) runs per item, like upstream.

pub mod iter;
pub mod slice;

pub mod prelude {
    pub use crate::iter::{
        FromParallelIterator, IndexedParallelIterator, IntoParallelIterator, IntoParallelRefIterator,
        IntoParallelRefMutIterator, ParallelBridge, ParallelExtend, ParallelIterator,
    };
    pub use crate::slice::{ParallelSlice, ParallelSliceMut};
}

/// Runs both closures; which one completes first is the simulator's choice.
pub fn join<A, B, RA, RB>(a: A, b: B) -> (RA, RB)
where
    A: FnOnce() -> RA + Send,
    B: FnOnce() -> RB + Send,
    RA: Send,
    RB: Send,
{
    if simhook::flip("rayon::join") {
        let rb = b();
        let ra = a();
        (ra, rb)
    } else {
        let ra = a();
        let rb = b();
        (ra, rb)
    }
}

pub fn current_num_threads() -> usize {
    simhook::num_threads()
}

pub fn current_thread_index() -> Option<usize> {
    None
}
