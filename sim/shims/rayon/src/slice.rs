//! `par_chunks` & co. on slices.

use crate::iter::IterBase;
use std::cmp::Ordering;

pub trait ParallelSlice<T: Sync> {
    fn as_parallel_slice(&self) -> &[T];

    fn par_chunks(&self, chunk_size: usize) -> IterBase<&[T]> {
        assert!(chunk_size != 0, "chunk_size must not be zero");
        self.as_parallel_slice().chunks(chunk_size).into_par()
    }
    fn par_chunks_exact(&self, chunk_size: usize) -> IterBase<&[T]> {
        assert!(chunk_size != 0, "chunk_size must not be zero");
        self.as_parallel_slice().chunks_exact(chunk_size).into_par()
    }
    fn par_rchunks(&self, chunk_size: usize) -> IterBase<&[T]> {
        assert!(chunk_size != 0, "chunk_size must not be zero");
        self.as_parallel_slice().rchunks(chunk_size).into_par()
    }
    fn par_windows(&self, window_size: usize) -> IterBase<&[T]> {
        self.as_parallel_slice().windows(window_size).into_par()
    }
    fn par_split<P>(&self, separator: P) -> IterBase<&[T]>
    where
        P: Fn(&T) -> bool + Sync + Send,
    {
        self.as_parallel_slice().split(|x| separator(x)).into_par()
    }
}
impl<T: Sync> ParallelSlice<T> for [T] {
    fn as_parallel_slice(&self) -> &[T] {
        self
    }
}

pub trait ParallelSliceMut<T: Send> {
    fn as_parallel_slice_mut(&mut self) -> &mut [T];

    fn par_chunks_mut(&mut self, chunk_size: usize) -> IterBase<&mut [T]> {
        assert!(chunk_size != 0, "chunk_size must not be zero");
        self.as_parallel_slice_mut().chunks_mut(chunk_size).into_par()
    }
    fn par_chunks_exact_mut(&mut self, chunk_size: usize) -> IterBase<&mut [T]> {
        assert!(chunk_size != 0, "chunk_size must not be zero");
        self.as_parallel_slice_mut().chunks_exact_mut(chunk_size).into_par()
    }
    fn par_sort(&mut self)
    where
        T: Ord,
    {
        self.as_parallel_slice_mut().sort()
    }
    fn par_sort_by<F: Fn(&T, &T) -> Ordering + Sync>(&mut self, f: F) {
        self.as_parallel_slice_mut().sort_by(|a, b| f(a, b))
    }
    fn par_sort_by_key<K: Ord, F: Fn(&T) -> K + Sync>(&mut self, f: F) {
        self.as_parallel_slice_mut().sort_by_key(|a| f(a))
    }
    fn par_sort_unstable(&mut self)
    where
        T: Ord,
    {
        self.as_parallel_slice_mut().sort_unstable()
    }
    fn par_sort_unstable_by<F: Fn(&T, &T) -> Ordering + Sync>(&mut self, f: F) {
        self.as_parallel_slice_mut().sort_unstable_by(|a, b| f(a, b))
    }
    fn par_sort_unstable_by_key<K: Ord, F: Fn(&T) -> K + Sync>(&mut self, f: F) {
        self.as_parallel_slice_mut().sort_unstable_by_key(|a| f(a))
    }
}
impl<T: Send> ParallelSliceMut<T> for [T] {
    fn as_parallel_slice_mut(&mut self) -> &mut [T] {
        self
    }
}

trait IntoPar: Iterator + Sized {
    fn into_par(self) -> IterBase<Self::Item> {
        IterBase { items: self.collect() }
    }
}
impl<I: Iterator> IntoPar for I {}
