//! Simulator core: one seed decides everything.
//!
//! * `Ctx` — four labelled choice streams (W workload, F faults, S schedule,
//!   R randomness served to the system), generated from a seed or replayed
//!   from a recorded trace; every draw is recorded; an event log with a running
//!   hash proves determinism.
//! * `SimSink` / `SimSource` — the `Write` / `Read` seams with chunking, EINTR
//!   and hard faults.
//! * `disk` — storage faults on stored byte images.
//! * `shrink` — trace minimisation.

pub mod ctx;
pub mod disk;
pub mod io;
pub mod shrink;

pub use ctx::{Ctx, RngMode, SchedPolicy, Stream, Trace};
pub use io::{ChunkPolicy, FaultKind, SimSink, SimSource, SinkCfg, SourceCfg};

/// SplitMix64: seed expander and cheap mixer.
#[inline]
pub fn splitmix(state: &mut u64) -> u64 {
    *state = state.wrapping_add(0x9E37_79B9_7F4A_7C15);
    let mut z = *state;
    z = (z ^ (z >> 30)).wrapping_mul(0xBF58_476D_1CE4_E5B9);
    z = (z ^ (z >> 27)).wrapping_mul(0x94D0_49BB_1331_11EB);
    z ^ (z >> 31)
}

pub fn mix(a: u64, b: u64) -> u64 {
    let mut s = a ^ b.wrapping_mul(0xD6E8_FEB8_6659_FD93);
    splitmix(&mut s)
}

pub fn mix_str(a: u64, s: &str) -> u64 {
    let mut h = a ^ 0xcbf2_9ce4_8422_2325;
    for &b in s.as_bytes() {
        h = (h ^ b as u64).wrapping_mul(0x0000_0100_0000_01B3);
    }
    mix(h, s.len() as u64)
}

/// xoshiro256** — the only PRNG in the harness.
#[derive(Clone, Debug)]
pub struct Xoshiro {
    s: [u64; 4],
}
impl Xoshiro {
    pub fn new(seed: u64) -> Self {
        let mut st = seed;
        let s = [splitmix(&mut st), splitmix(&mut st), splitmix(&mut st), splitmix(&mut st)];
        Xoshiro { s }
    }
    #[inline]
    pub fn next(&mut self) -> u64 {
        let r = self.s[1].wrapping_mul(5).rotate_left(7).wrapping_mul(9);
        let t = self.s[1] << 17;
        self.s[2] ^= self.s[0];
        self.s[3] ^= self.s[1];
        self.s[1] ^= self.s[2];
        self.s[0] ^= self.s[3];
        self.s[2] ^= t;
        self.s[3] = self.s[3].rotate_left(45);
        r
    }
}

/// FNV-1a 64 over bytes, used for cheap digests of byte images.
pub fn fnv(bytes: &[u8]) -> u64 {
    let mut h: u64 = 0xcbf2_9ce4_8422_2325;
    for &b in bytes {
        h = (h ^ b as u64).wrapping_mul(0x0000_0100_0000_01B3);
    }
    h
}

pub fn sha256_hex(bytes: &[u8]) -> String {
    use sha2::{Digest, Sha256};
    let d = Sha256::digest(bytes);
    d.iter().map(|b| format!("{:02x}", b)).collect()
}
