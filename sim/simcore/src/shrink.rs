//! Trace minimisation (delta debugging over the four choice vectors).
//!
//! `test(candidate)` runs the scenario from the candidate trace and returns the
//! *recorded* trace of that execution iff the same violation class occurred.
//! Because value 0 is the most benign choice everywhere and an exhausted
//! stream yields 0, "shorter" and "smaller" both mean "less unusual".

use crate::ctx::Trace;

pub struct ShrinkStats {
    pub executions: u64,
    pub accepted: u64,
}

fn simpler(a: &Trace, b: &Trace) -> bool {
    // fewer choices, then smaller sum
    let (la, lb) = (a.total_len(), b.total_len());
    if la != lb {
        return la < lb;
    }
    let sa: u128 = a.v.iter().flatten().map(|&x| x as u128).sum();
    let sb: u128 = b.v.iter().flatten().map(|&x| x as u128).sum();
    sa < sb
}

pub fn shrink(start: Trace, test: &mut dyn FnMut(&Trace) -> Option<Trace>, max_exec: u64) -> (Trace, ShrinkStats) {
    let mut best = start;
    let mut st = ShrinkStats { executions: 0, accepted: 0 };
    // order: schedule first (does the schedule matter at all?), then faults, RNG, workload
    let order = [2usize, 1, 3, 0];

    macro_rules! attempt {
        ($cand:expr) => {{
            let cand: Trace = $cand;
            if st.executions >= max_exec || cand == best {
                false
            } else {
                st.executions += 1;
                match test(&cand) {
                    Some(rec) => {
                        // keep the recorded form (normalised values, unused tail dropped) when it is no worse
                        let next = if simpler(&rec, &cand) || rec == cand { rec } else { cand };
                        if simpler(&next, &best) {
                            best = next;
                            st.accepted += 1;
                            true
                        } else {
                            false
                        }
                    }
                    None => false,
                }
            }
        }};
    }

    // pass 0: whole streams to "nothing unusual"
    for &s in &order {
        if !best.v[s].is_empty() {
            let mut c = best.clone();
            c.v[s].clear();
            attempt!(c);
        }
    }
    let mut progress = true;
    while progress && st.executions < max_exec {
        progress = false;
        for &s in &order {
            // truncate tail
            let mut cut = best.v[s].len() / 2;
            while cut >= 1 && st.executions < max_exec {
                let n = best.v[s].len();
                if n >= cut {
                    let mut c = best.clone();
                    c.v[s].truncate(n - cut);
                    if attempt!(c) {
                        progress = true;
                        continue;
                    }
                }
                cut /= 2;
            }
            // delete chunks
            let mut size = (best.v[s].len() / 2).max(1);
            while size >= 1 && st.executions < max_exec {
                let mut i = 0;
                while i + size <= best.v[s].len() && st.executions < max_exec {
                    let mut c = best.clone();
                    c.v[s].drain(i..i + size);
                    if attempt!(c) {
                        progress = true;
                    } else {
                        i += size;
                    }
                }
                if size == 1 {
                    break;
                }
                size /= 2;
            }
            // zero chunks
            let mut size = (best.v[s].len() / 2).max(1);
            while size >= 1 && st.executions < max_exec {
                let mut i = 0;
                while i + size <= best.v[s].len() && st.executions < max_exec {
                    if best.v[s][i..i + size].iter().any(|&x| x != 0) {
                        let mut c = best.clone();
                        for x in &mut c.v[s][i..i + size] {
                            *x = 0;
                        }
                        if attempt!(c) {
                            progress = true;
                        }
                    }
                    i += size;
                }
                if size == 1 {
                    break;
                }
                size /= 2;
            }
            // lower single values
            let mut i = 0;
            while i < best.v[s].len() && st.executions < max_exec {
                let v = best.v[s][i];
                if v > 1 {
                    for cand_v in [1, v / 2, v - 1] {
                        if cand_v < best.v[s].get(i).copied().unwrap_or(0) {
                            let mut c = best.clone();
                            c.v[s][i] = cand_v;
                            if attempt!(c) {
                                progress = true;
                                break;
                            }
                        }
                    }
                }
                i += 1;
            }
        }
    }
    (best, st)
}
