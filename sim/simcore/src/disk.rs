//! Storage faults applied to a stored byte image between a save and a later
//! load: what a torn, flipped, lost, stale, misdirected, duplicated or
//! cross-linked write looks like to the reader. All choices from stream F.

use crate::ctx::{Ctx, Stream::F};

pub const FAULT_KINDS: [&str; 12] = [
    "truncate",
    "bit-flip",
    "byte-burst",
    "zero-block",
    "stale-block",
    "misdirected-block",
    "duplicated-block",
    "splice",
    "digit-edit",
    "ref-retarget",
    "replicated-block",
    "number-copy",
];

/// Digit runs after `/Prev` and after `startxref`.
fn find_offsets(img: &[u8]) -> (Vec<(usize, usize)>, Vec<(usize, usize)>) {
    let mut out = (Vec::new(), Vec::new());
    for (key, which) in [(&b"/Prev"[..], 0), (&b"startxref"[..], 1)] {
        let mut i = 0;
        while i + key.len() <= img.len() {
            if &img[i..i + key.len()] == key {
                let mut j = i + key.len();
                while j < img.len() && (img[j] == b' ' || img[j] == b'\n' || img[j] == b'\r') {
                    j += 1;
                }
                let s0 = j;
                while j < img.len() && img[j].is_ascii_digit() {
                    j += 1;
                }
                if j > s0 {
                    if which == 0 {
                        out.0.push((s0, j));
                    } else {
                        out.1.push((s0, j));
                    }
                }
                i = j.max(i + 1);
            } else {
                i += 1;
            }
        }
    }
    out
}

/// Positions of `N G R` reference tokens: (start of N, end of N, preceded by /Length).
fn find_refs(img: &[u8]) -> Vec<(usize, usize, bool)> {
    let mut out = Vec::new();
    let mut i = 0;
    while i < img.len() {
        if img[i].is_ascii_digit() && (i == 0 || !img[i - 1].is_ascii_digit()) {
            let s = i;
            while i < img.len() && img[i].is_ascii_digit() {
                i += 1;
            }
            let e = i;
            let mut j = e;
            let ws = |c: u8| c == b' ' || c == b'\n' || c == b'\r' || c == b'\t';
            while j < img.len() && ws(img[j]) {
                j += 1;
            }
            let g0 = j;
            while j < img.len() && img[j].is_ascii_digit() {
                j += 1;
            }
            if j > g0 && j > e {
                let mut k = j;
                while k < img.len() && ws(img[k]) {
                    k += 1;
                }
                if k > j && k < img.len() && img[k] == b'R' && (k + 1 == img.len() || !img[k + 1].is_ascii_alphanumeric()) {
                    let lead = &img[s.saturating_sub(12)..s];
                    out.push((s, e, lead.windows(7).any(|w| w == b"/Length")));
                }
            }
        } else {
            i += 1;
        }
    }
    out
}

fn block_size(ctx: &Ctx) -> usize {
    // (4 bytes: a torn word-sized write; the larger ones are sector / page sized)
    [4usize, 16, 64, 512, 4096][ctx.draw(F, 5, "block-size") as usize]
}

/// Pick a position: half of the time inside one of the `hot` spans (structural
/// fields the harness knows from the layout), otherwise anywhere.
fn position(ctx: &Ctx, len: usize, hot: &[(usize, usize)]) -> usize {
    if len == 0 {
        return 0;
    }
    if !hot.is_empty() && ctx.chance(F, 1, 2, "fault-on-structure") {
        let (s, e) = hot[ctx.draw(F, hot.len() as u64, "hot-span") as usize];
        let e = e.min(len).max(s + 1);
        let s = s.min(len - 1);
        return (s + ctx.draw(F, (e - s).max(1) as u64, "hot-offset") as usize).min(len - 1);
    }
    ctx.draw(F, len as u64, "fault-pos") as usize
}

/// Apply one storage fault. `older`: an earlier image of the same file (for
/// stale blocks and splices). Returns the kind applied.
pub fn apply_fault(ctx: &Ctx, img: &mut Vec<u8>, older: Option<&[u8]>, hot: &[(usize, usize)]) -> &'static str {
    if img.is_empty() {
        return "none";
    }
    let kind = FAULT_KINDS[ctx.draw(F, FAULT_KINDS.len() as u64, "disk-fault-kind") as usize];
    let len = img.len();
    match kind {
        "truncate" => {
            let p = position(ctx, len, hot);
            img.truncate(p);
        }
        "bit-flip" => {
            for _ in 0..1 + ctx.draw(F, 3, "flips") {
                let p = position(ctx, len, hot);
                img[p] ^= 1 << ctx.draw(F, 8, "bit");
            }
        }
        "byte-burst" => {
            let p = position(ctx, len, hot);
            let n = 1 + ctx.draw(F, 8, "burst-len") as usize;
            for i in p..(p + n).min(len) {
                img[i] = ctx.draw(F, 256, "burst-byte") as u8;
            }
        }
        "digit-edit" => {
            // a flipped stored digit inside a number: numeric extremes in lengths, offsets, counts
            let p = position(ctx, len, hot);
            if let Some(q) = (p..len.min(p + 64)).find(|&i| img[i].is_ascii_digit()) {
                img[q] = b'0' + ctx.draw(F, 10, "digit") as u8;
            }
        }
        "ref-retarget" if find_offsets(img).0.len() >= 1 && ctx.chance(F, 1, 4, "retarget-prev") => {
            // the same kind of damage on a cross-reference offset: a Prev value that now names this
            // very section, a later one, or the start of the file (Prev cycles)
            let (prevs, starts) = find_offsets(img);
            let (s, e) = prevs[ctx.draw(F, prevs.len() as u64, "prev-which") as usize];
            let mut pool: Vec<Vec<u8>> = prevs.iter().chain(starts.iter()).map(|&(a, b)| img[a..b].to_vec()).collect();
            pool.push(b"0".to_vec());
            let val = pool[ctx.draw(F, pool.len() as u64, "prev-to") as usize].clone();
            img.splice(s..e, val);
        }
        "ref-retarget" => {
            // a corrupted digit run inside a reference that happens to name another object of the
            // file (reference cycles, Length pointing at a stream, Kids pointing upwards ...)
            let refs = find_refs(img);
            if !refs.is_empty() {
                let lens: Vec<&(usize, usize, bool)> = refs.iter().filter(|r| r.2).collect();
                let (s, e, _) = if !lens.is_empty() && ctx.chance(F, 1, 2, "retarget-length") {
                    *lens[ctx.draw(F, lens.len() as u64, "retarget-which") as usize]
                } else {
                    refs[ctx.draw(F, refs.len() as u64, "retarget-which") as usize]
                };
                // new target: the number of some other reference or a small number
                let (ts, te, _) = refs[ctx.draw(F, refs.len() as u64, "retarget-to") as usize];
                let mut digits: Vec<u8> = if ctx.chance(F, 1, 4, "retarget-small") {
                    (1 + ctx.draw(F, 30, "retarget-n")).to_string().into_bytes()
                } else {
                    img[ts..te].to_vec()
                };
                let width = e - s;
                if digits.len() <= width {
                    while digits.len() < width {
                        digits.insert(0, b'0');
                    }
                    img[s..e].copy_from_slice(&digits);
                }
            }
        }
        "zero-block" => {
            let b = block_size(ctx);
            let p = position(ctx, len, hot) / b * b;
            for i in p..(p + b).min(len) {
                img[i] = 0;
            }
        }
        "stale-block" => {
            let b = block_size(ctx);
            let p = position(ctx, len, hot) / b * b;
            match older {
                Some(o) if p < o.len() => {
                    let e = (p + b).min(len).min(o.len());
                    img[p..e].copy_from_slice(&o[p..e]);
                }
                _ => {
                    for i in p..(p + b).min(len) {
                        img[i] = b' ';
                    }
                }
            }
        }
        "misdirected-block" => {
            let b = block_size(ctx);
            let from = position(ctx, len, hot) / b * b;
            let to = ctx.draw(F, (len / b + 1) as u64, "misdirect-to") as usize * b;
            let blk: Vec<u8> = img[from..(from + b).min(len)].to_vec();
            for (i, c) in blk.iter().enumerate() {
                if to + i < len {
                    img[to + i] = *c;
                }
            }
        }
        "number-copy" if ctx.chance(F, 1, 3, "number-extreme") => {
            // a stored number replaced by one that is extreme *relative to this file*: its size, the
            // distance from the number to the end of the file, an offset taken from elsewhere in the
            // file (a digit run found at a random place), each also one off
            let p = position(ctx, len, hot);
            if let Some(q) = (p..len.min(p + 64)).find(|&i| img[i].is_ascii_digit()) {
                let e = (q..len).find(|&i| !img[i].is_ascii_digit()).unwrap_or(len);
                let base: u64 = match ctx.draw(F, 6, "extreme-base") {
                    0 | 1 => len as u64,
                    2 => (len - q) as u64,
                    3 => q as u64,
                    // extremes of the integer types a reader may compute with
                    4 => [1u64 << 15, 1 << 16, 1 << 31, 1 << 32, i64::MAX as u64, u64::MAX, 1 << 62, 1 << 53][ctx.draw(F, 8, "extreme-abs") as usize],
                    _ => {
                        let r = ctx.draw(F, len as u64, "extreme-from") as usize;
                        match (r..len).find(|&i| img[i].is_ascii_digit()) {
                            Some(a) => {
                                let b = (a..len.min(a + 18)).find(|&i| !img[i].is_ascii_digit()).unwrap_or(len.min(a + 18));
                                std::str::from_utf8(&img[a..b]).ok().and_then(|t| t.parse().ok()).unwrap_or(0)
                            }
                            None => 0,
                        }
                    }
                };
                let v = match ctx.draw(F, 5, "extreme-delta") {
                    0 => base,
                    1 => base.saturating_sub(1),
                    2 => base.saturating_add(1),
                    3 => base.saturating_sub(ctx.draw(F, 64, "extreme-minus")),
                    _ => base / 2,
                };
                // same size when it fits (zero-padded): a corrupted value in a file of unchanged length
                let digits = v.to_string().into_bytes();
                if digits.len() <= e - q {
                    let mut d = vec![b'0'; e - q - digits.len()];
                    d.extend_from_slice(&digits);
                    img[q..e].copy_from_slice(&d);
                } else {
                    img.splice(q..e, digits);
                }
            }
            return "number-extreme";
        }
        "number-copy" => {
            // a small misdirected write: one digit run lands on a neighbouring one (duplicate object
            // numbers or offsets in index blocks and cross-reference tables)
            let p = position(ctx, len, hot);
            let runs: Vec<(usize, usize)> = {
                let mut v = Vec::new();
                let mut i = p;
                while i < len.min(p + 96) && v.len() < 6 {
                    if img[i].is_ascii_digit() {
                        let s0 = i;
                        while i < len && img[i].is_ascii_digit() {
                            i += 1;
                        }
                        v.push((s0, i));
                    } else {
                        i += 1;
                    }
                }
                v
            };
            if runs.len() >= 2 {
                let a = ctx.draw(F, runs.len() as u64, "copy-from") as usize;
                let b = ctx.draw(F, runs.len() as u64, "copy-to") as usize;
                if a != b {
                    let src: Vec<u8> = img[runs[a].0..runs[a].1].to_vec();
                    let (ds, de) = runs[b];
                    if src.len() <= de - ds {
                        let mut d = vec![b'0'; de - ds - src.len()];
                        d.extend_from_slice(&src);
                        img[ds..de].copy_from_slice(&d);
                    } else {
                        // longer number: replace the run (the image grows)
                        img.splice(ds..de, src);
                    }
                }
            }
        }
        "replicated-block" => {
            // duplicated delivery gone wild (a retry storm): one block delivered many times
            let b = [8usize, 16, 64, 512][ctx.draw(F, 4, "replica-block-size") as usize];
            // not block-aligned: a retried request starts where the request started
            let p = position(ctx, len, hot).min(len.saturating_sub(b.min(len)));
            let blk: Vec<u8> = img[p..(p + b).min(len)].to_vec();
            let mut times = [2usize, 2, 8, 64, 64, 512, 4096, 4096, 16384, 65536, 65536, 131072][ctx.draw(F, 12, "replicas") as usize];
            while times * blk.len() > (1 << 20) {
                times /= 2;
            }
            let at = (p + blk.len()).min(len);
            let mut ins = Vec::with_capacity(times * blk.len());
            for _ in 0..times {
                ins.extend_from_slice(&blk);
            }
            img.splice(at..at, ins);
        }
        "duplicated-block" => {
            let b = block_size(ctx);
            let p = position(ctx, len, hot) / b * b;
            let blk: Vec<u8> = img[p..(p + b).min(len)].to_vec();
            let at = (p + blk.len()).min(len);
            img.splice(at..at, blk);
        }
        _ => {
            // splice: head of this image, tail of another one (cross-linked blocks)
            let b = block_size(ctx);
            let p = position(ctx, len, hot) / b * b;
            if let Some(o) = older {
                if p < o.len() {
                    img.truncate(p);
                    img.extend_from_slice(&o[p..]);
                }
            } else {
                let q = ctx.draw(F, len as u64, "splice-from") as usize / b * b;
                let tail: Vec<u8> = img[q..].to_vec();
                img.truncate(p);
                img.extend_from_slice(&tail);
            }
        }
    }
    kind
}
