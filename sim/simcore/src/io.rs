//! The `Write` and `Read` seams.
//!
//! `SimSink` implements only `write`/`flush` so that std's `write_all` loop (the
//! code that really runs under lopdf's `CountingWrite`) is exercised. Per call it
//! accepts `1..=len` bytes according to a chunk policy, may answer
//! `Interrupted` (must be invisible to the caller), and fails for good at an
//! armed byte offset.

use crate::ctx::{Ctx, Stream};
use std::io::{self, ErrorKind, Read, Write};

#[derive(Clone, Copy, Debug, PartialEq, Eq)]
pub enum ChunkPolicy {
    Whole,
    One,
    /// at most k bytes per call, drawn per call
    UpTo(usize),
    /// 1, 2, 4, ... doubling then wrapping at 4096
    Geometric,
}

#[derive(Clone, Copy, Debug, PartialEq, Eq)]
pub enum FaultKind {
    /// `write` returns `Ok(0)` on a non-empty buffer (std turns it into WriteZero)
    ZeroWrite,
    Hard(ErrorKind),
}
pub const HARD_KINDS: [ErrorKind; 6] = [
    ErrorKind::Other,
    ErrorKind::BrokenPipe,
    ErrorKind::StorageFull,
    ErrorKind::PermissionDenied,
    ErrorKind::TimedOut,
    ErrorKind::WouldBlock,
];

#[derive(Clone, Debug)]
pub struct SinkCfg {
    pub chunk: ChunkPolicy,
    /// probability (per 256) that a call answers `Interrupted` first
    pub eintr_per_256: u32,
    /// hard fault when exactly this many bytes have been accepted
    pub fault_at: Option<(usize, FaultKind)>,
    /// fail in `flush` instead of `write` (only reachable through BufWriter-like callers)
    pub fail_flush: bool,
    /// the failure is a single refused call: afterwards the sink accepts writes again (a full
    /// disk that got space back, a non-blocking descriptor that became writable). A caller that
    /// drops the one error would go on and deliver output with a hole in it.
    pub recovers: bool,
}
impl SinkCfg {
    pub fn healthy() -> SinkCfg {
        SinkCfg { chunk: ChunkPolicy::Whole, eintr_per_256: 0, fault_at: None, fail_flush: false, recovers: false }
    }
}

pub struct SimSink {
    ctx: Ctx,
    cfg: SinkCfg,
    pub accepted: Vec<u8>,
    pub calls: u64,
    pub eintr_fired: u64,
    pub short_writes: u64,
    pub fault_fired: bool,
    pub eintr_before_fault: bool,
    pub calls_after_fault: u64,
    eintr_burst: u32,
    last_was_eintr: bool,
    geo: usize,
}

impl SimSink {
    pub fn new(ctx: &Ctx, cfg: SinkCfg) -> SimSink {
        SimSink {
            ctx: ctx.clone(),
            cfg,
            accepted: Vec::new(),
            calls: 0,
            eintr_fired: 0,
            short_writes: 0,
            fault_fired: false,
            eintr_before_fault: false,
            calls_after_fault: 0,
            eintr_burst: 0,
            last_was_eintr: false,
            geo: 1,
        }
    }
}

impl Write for SimSink {
    fn write(&mut self, buf: &[u8]) -> io::Result<usize> {
        self.calls += 1;
        if self.fault_fired {
            // a well-behaved caller stops after the first hard error
            self.calls_after_fault += 1;
            if !self.cfg.recovers {
                return Err(io::Error::new(ErrorKind::Other, "sim: sink already failed"));
            }
        }
        if buf.is_empty() {
            return Ok(0);
        }
        if let Some((at, kind)) = self.cfg.fault_at {
            if self.accepted.len() == at && !self.fault_fired {
                // a transient Interrupted may come right before the hard failure
                if self.cfg.eintr_per_256 > 0 && self.eintr_burst < 3 && self.ctx.draw(Stream::F, 256, "eintr-at-fault") >= 256 - self.cfg.eintr_per_256 as u64 {
                    self.eintr_burst += 1;
                    self.eintr_fired += 1;
                    self.last_was_eintr = true;
                    self.ctx.event("sink-eintr", at as u64, 1);
                    return Err(io::Error::new(ErrorKind::Interrupted, "sim: EINTR"));
                }
                self.fault_fired = true;
                self.eintr_before_fault = self.last_was_eintr;
                self.ctx.event("sink-fault", at as u64, 0);
                return match kind {
                    FaultKind::ZeroWrite => Ok(0),
                    FaultKind::Hard(k) => Err(io::Error::new(k, "sim: injected sink fault")),
                };
            }
        }
        if self.cfg.eintr_per_256 > 0 && self.eintr_burst < 3 {
            if self.ctx.draw(Stream::F, 256, "eintr") >= 256 - self.cfg.eintr_per_256 as u64 {
                self.eintr_burst += 1;
                self.eintr_fired += 1;
                self.last_was_eintr = true;
                self.ctx.event("sink-eintr", self.accepted.len() as u64, 0);
                return Err(io::Error::new(ErrorKind::Interrupted, "sim: EINTR"));
            }
        }
        self.eintr_burst = 0;
        self.last_was_eintr = false;
        let mut n = match self.cfg.chunk {
            ChunkPolicy::Whole => buf.len(),
            ChunkPolicy::One => 1,
            ChunkPolicy::UpTo(k) => 1 + self.ctx.draw(Stream::F, k.max(1) as u64, "chunk") as usize,
            ChunkPolicy::Geometric => {
                let g = self.geo;
                self.geo = if g >= 4096 { 1 } else { g * 2 };
                g
            }
        }
        .min(buf.len());
        if let Some((at, _)) = self.cfg.fault_at {
            // stop exactly at the armed offset so that the next call meets the fault
            if self.accepted.len() < at && !self.fault_fired {
                n = n.min(at - self.accepted.len());
            }
        }
        if n < buf.len() {
            self.short_writes += 1;
        }
        self.accepted.extend_from_slice(&buf[..n]);
        Ok(n)
    }

    fn flush(&mut self) -> io::Result<()> {
        if self.cfg.fail_flush && !self.fault_fired {
            self.fault_fired = true;
            self.ctx.event("sink-flush-fault", self.accepted.len() as u64, 0);
            return Err(io::Error::new(ErrorKind::Other, "sim: injected flush fault"));
        }
        Ok(())
    }
}

#[derive(Clone, Debug)]
pub struct SourceCfg {
    pub chunk: ChunkPolicy,
    pub eintr_per_256: u32,
    /// hard read error once this many bytes have been delivered
    pub fault_at: Option<(usize, ErrorKind)>,
    /// early EOF: pretend the data ends here
    pub eof_at: Option<usize>,
}
impl SourceCfg {
    pub fn healthy() -> SourceCfg {
        SourceCfg { chunk: ChunkPolicy::Whole, eintr_per_256: 0, fault_at: None, eof_at: None }
    }
}

pub struct SimSource<'a> {
    ctx: Ctx,
    cfg: SourceCfg,
    data: &'a [u8],
    pub pos: usize,
    pub calls: u64,
    pub eintr_fired: u64,
    pub fault_fired: bool,
    eintr_burst: u32,
    geo: usize,
}
impl<'a> SimSource<'a> {
    pub fn new(ctx: &Ctx, data: &'a [u8], cfg: SourceCfg) -> SimSource<'a> {
        let data = match cfg.eof_at {
            Some(e) if e < data.len() => &data[..e],
            _ => data,
        };
        SimSource { ctx: ctx.clone(), cfg, data, pos: 0, calls: 0, eintr_fired: 0, fault_fired: false, eintr_burst: 0, geo: 1 }
    }
}
impl Read for SimSource<'_> {
    fn read(&mut self, buf: &mut [u8]) -> io::Result<usize> {
        self.calls += 1;
        if buf.is_empty() {
            return Ok(0);
        }
        if let Some((at, kind)) = self.cfg.fault_at {
            if self.pos >= at.min(self.data.len()) {
                self.fault_fired = true;
                self.ctx.event("source-fault", at as u64, 0);
                return Err(io::Error::new(kind, "sim: injected read fault"));
            }
        }
        if self.pos >= self.data.len() {
            return Ok(0);
        }
        if self.cfg.eintr_per_256 > 0 && self.eintr_burst < 3 {
            if self.ctx.draw(Stream::F, 256, "r-eintr") >= 256 - self.cfg.eintr_per_256 as u64 {
                self.eintr_burst += 1;
                self.eintr_fired += 1;
                return Err(io::Error::new(ErrorKind::Interrupted, "sim: EINTR"));
            }
        }
        self.eintr_burst = 0;
        let mut n = match self.cfg.chunk {
            ChunkPolicy::Whole => buf.len(),
            ChunkPolicy::One => 1,
            ChunkPolicy::UpTo(k) => 1 + self.ctx.draw(Stream::F, k.max(1) as u64, "r-chunk") as usize,
            ChunkPolicy::Geometric => {
                let g = self.geo;
                self.geo = if g >= 4096 { 1 } else { g * 2 };
                g
            }
        }
        .min(buf.len())
        .min(self.data.len() - self.pos);
        if let Some((at, _)) = self.cfg.fault_at {
            if self.pos < at {
                n = n.min(at - self.pos);
            }
        }
        buf[..n].copy_from_slice(&self.data[self.pos..self.pos + n]);
        self.pos += n;
        Ok(n)
    }
}

/// Draw a benign (no hard fault) sink configuration: chunking and EINTR only.
pub fn draw_benign_sink(ctx: &Ctx) -> SinkCfg {
    let chunk = match ctx.draw(Stream::F, 6, "sink-chunk-policy") {
        0 | 1 => ChunkPolicy::Whole,
        2 => ChunkPolicy::One,
        3 => ChunkPolicy::UpTo(1 + ctx.draw(Stream::F, 16, "sink-k") as usize),
        4 => ChunkPolicy::UpTo(1 + ctx.draw(Stream::F, 300, "sink-k") as usize),
        _ => ChunkPolicy::Geometric,
    };
    let eintr = match ctx.draw(Stream::F, 4, "sink-eintr-policy") {
        0 | 1 => 0,
        2 => 8,
        _ => 64,
    };
    SinkCfg { chunk, eintr_per_256: eintr, fault_at: None, fail_flush: false, recovers: false }
}

pub fn draw_benign_source(ctx: &Ctx) -> SourceCfg {
    let chunk = match ctx.draw(Stream::F, 6, "src-chunk-policy") {
        0 | 1 => ChunkPolicy::Whole,
        2 => ChunkPolicy::One,
        3 => ChunkPolicy::UpTo(1 + ctx.draw(Stream::F, 16, "src-k") as usize),
        4 => ChunkPolicy::UpTo(1 + ctx.draw(Stream::F, 300, "src-k") as usize),
        _ => ChunkPolicy::Geometric,
    };
    let eintr = match ctx.draw(Stream::F, 4, "src-eintr-policy") {
        0 | 1 => 0,
        2 => 8,
        _ => 64,
    };
    SourceCfg { chunk, eintr_per_256: eintr, fault_at: None, eof_at: None }
}
