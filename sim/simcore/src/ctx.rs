use crate::{mix, mix_str, Xoshiro};
use std::collections::BTreeMap;
use std::sync::{Arc, Mutex};

#[derive(Clone, Copy, PartialEq, Eq, Debug)]
pub enum Stream {
    /// workload: documents, programs, producer syntax
    W = 0,
    /// faults: kind, position, chunk sizes
    F = 1,
    /// schedule: completion orders, who runs next
    S = 2,
    /// randomness served to the system through the `rand` seam
    R = 3,
}
pub const STREAM_NAMES: [&str; 4] = ["W", "F", "S", "R"];

/// The recorded (or to-be-replayed) choices of one run.
#[derive(Clone, Default, Debug, PartialEq, Eq)]
pub struct Trace {
    pub v: [Vec<u64>; 4],
}
impl Trace {
    pub fn total_len(&self) -> usize {
        self.v.iter().map(|x| x.len()).sum()
    }
}

/// What the `rand` seam serves (lopdf must be correct for every value an OS
/// RNG could return, so every mode is in the domain).
#[derive(Clone, Copy, PartialEq, Eq, Debug)]
pub enum RngMode {
    Uniform,
    Zero,
    Ones,
    /// only bytes that are special in PDF syntax
    PdfSpecial,
    /// one 16-byte block repeated (IV / salt reuse)
    Repeat16,
}
pub const RNG_MODES: [RngMode; 5] =
    [RngMode::Uniform, RngMode::Zero, RngMode::Ones, RngMode::PdfSpecial, RngMode::Repeat16];
const PDF_SPECIAL: &[u8] = b"()\\\r\n#/%<>[] ";

/// How completion orders of parallel sections are chosen.
#[derive(Clone, PartialEq, Eq, Debug)]
pub enum SchedPolicy {
    /// every section: a fresh permutation drawn from stream S
    Random,
    InOrder,
    Reverse,
    /// in order, rotated left by k
    Rotate(usize),
    /// an explicit completion order for sections of exactly that many items (others in order):
    /// used to enumerate orders exhaustively
    Scripted(std::sync::Arc<Vec<usize>>),
}

struct Inner {
    gens: Option<[Xoshiro; 4]>,
    replay: Option<Trace>,
    pos: [usize; 4],
    rec: Trace,
    log_on: bool,
    log: Vec<String>,
    hash: u64,
    events: u64,
    rng_mode: RngMode,
    rng_block: Option<[u8; 16]>,
    rng_bytes: u64,
    sched: SchedPolicy,
    orders: Vec<Vec<usize>>,
    sections: u64,
    num_threads: usize,
    sink: Option<std::fs::File>,
    mode_t: Option<usize>,
    alloc_preempt: bool,
    counters: BTreeMap<&'static str, u64>,
}

/// Handle to the per-run simulation context (cheap to clone).
#[derive(Clone)]
pub struct Ctx(Arc<Mutex<Inner>>);

impl Ctx {
    fn mk(gens: Option<[Xoshiro; 4]>, replay: Option<Trace>) -> Ctx {
        Ctx(Arc::new(Mutex::new(Inner {
            gens,
            replay,
            pos: [0; 4],
            rec: Trace::default(),
            log_on: false,
            log: Vec::new(),
            hash: 0x1234_5678_9abc_def0,
            events: 0,
            rng_mode: RngMode::Uniform,
            rng_block: None,
            rng_bytes: 0,
            sched: SchedPolicy::Random,
            orders: Vec::new(),
            sections: 0,
            num_threads: 4,
            sink: None,
            mode_t: None,
            alloc_preempt: false,
            counters: BTreeMap::new(),
        })))
    }
    pub fn from_seed(seed: u64) -> Ctx {
        let g = [
            Xoshiro::new(mix(seed, 0x57)),
            Xoshiro::new(mix(seed, 0x46)),
            Xoshiro::new(mix(seed, 0x53)),
            Xoshiro::new(mix(seed, 0x52)),
        ];
        Ctx::mk(Some(g), None)
    }
    pub fn from_trace(t: Trace) -> Ctx {
        Ctx::mk(None, Some(t))
    }
    /// Write every draw to `f` immediately (unbuffered), so that the choices of a run that kills
    /// the process (stack overflow, abort) survive it and can be minimised afterwards.
    pub fn record_to(&self, f: std::fs::File) {
        self.0.lock().unwrap().sink = Some(f);
    }
    pub fn enable_log(&self) {
        self.0.lock().unwrap().log_on = true;
    }

    /// One choice in `[0, bound)`; `bound == 0` means the full u64 range.
    /// Convention: 0 is the most benign value.
    pub fn draw(&self, s: Stream, bound: u64, label: &'static str) -> u64 {
        let mut g = self.0.lock().unwrap();
        let i = s as usize;
        let raw = if let Some(gens) = g.gens.as_mut() {
            gens[i].next()
        } else {
            let p = g.pos[i];
            g.replay.as_ref().and_then(|t| t.v[i].get(p).copied()).unwrap_or(0)
        };
        g.pos[i] += 1;
        let v = if bound == 0 { raw } else { raw % bound };
        g.rec.v[i].push(v);
        if let Some(f) = g.sink.as_mut() {
            use std::io::Write;
            let mut rec = [0u8; 9];
            rec[0] = i as u8;
            rec[1..].copy_from_slice(&v.to_le_bytes());
            let _ = f.write_all(&rec);
        }
        if g.log_on {
            let line = format!("draw {} {} <{} = {}", STREAM_NAMES[i], label, bound, v);
            g.log.push(line);
        }
        v
    }
    /// true with probability num/den; value 0 of the underlying draw means false.
    pub fn chance(&self, s: Stream, num: u64, den: u64, label: &'static str) -> bool {
        self.draw(s, den, label) >= den - num.min(den)
    }
    pub fn range(&self, s: Stream, lo: u64, hi_incl: u64, label: &'static str) -> u64 {
        lo + self.draw(s, hi_incl - lo + 1, label)
    }
    pub fn pick<'a, T>(&self, s: Stream, xs: &'a [T], label: &'static str) -> &'a T {
        &xs[self.draw(s, xs.len() as u64, label) as usize]
    }

    /// Append to the event log (hash always, text only when logging).
    pub fn event(&self, kind: &'static str, a: u64, b: u64) {
        let mut g = self.0.lock().unwrap();
        g.events += 1;
        let h = mix(mix(mix_str(g.hash, kind), a), b);
        g.hash = h;
        if g.log_on {
            let line = format!("{} {} {}", kind, a, b);
            g.log.push(line);
        }
    }
    pub fn note(&self, text: impl FnOnce() -> String) {
        let mut g = self.0.lock().unwrap();
        if g.log_on {
            let t = text();
            g.log.push(t);
        }
    }
    pub fn count(&self, key: &'static str) {
        *self.0.lock().unwrap().counters.entry(key).or_insert(0) += 1;
    }
    pub fn count_n(&self, key: &'static str, n: u64) {
        *self.0.lock().unwrap().counters.entry(key).or_insert(0) += n;
    }
    pub fn counters(&self) -> BTreeMap<&'static str, u64> {
        self.0.lock().unwrap().counters.clone()
    }
    pub fn set_rng_mode(&self, m: RngMode) {
        let mut g = self.0.lock().unwrap();
        g.rng_mode = m;
        g.rng_block = None;
    }
    /// Size of the simulated pool as reported by `rayon::current_num_threads()`.
    pub fn set_num_threads(&self, n: usize) {
        self.0.lock().unwrap().num_threads = n.max(1);
    }
    /// Mode T: run top-level parallel sections on this many real threads under the baton
    /// scheduler (`None` = Mode P, the default).
    /// Mode T sections started from now on may preempt workers at allocation points.
    pub fn set_alloc_preempt(&self, on: bool) {
        self.0.lock().unwrap().alloc_preempt = on;
    }
    pub fn set_mode_t(&self, workers: Option<usize>) {
        self.0.lock().unwrap().mode_t = workers;
    }
    pub fn set_sched(&self, p: SchedPolicy) {
        self.0.lock().unwrap().sched = p;
    }
    pub fn trace(&self) -> Trace {
        self.0.lock().unwrap().rec.clone()
    }
    pub fn log(&self) -> Vec<String> {
        self.0.lock().unwrap().log.clone()
    }
    pub fn hash(&self) -> u64 {
        self.0.lock().unwrap().hash
    }
    pub fn events(&self) -> u64 {
        self.0.lock().unwrap().events
    }
    pub fn rng_bytes(&self) -> u64 {
        self.0.lock().unwrap().rng_bytes
    }
    /// Completion orders of the parallel sections (n >= 2) since the last call.
    pub fn take_orders(&self) -> Vec<Vec<usize>> {
        std::mem::take(&mut self.0.lock().unwrap().orders)
    }
    pub fn sections(&self) -> u64 {
        self.0.lock().unwrap().sections
    }

    /// Install this context behind the `rayon` and `rand` seams of the current thread.
    pub fn install(&self) {
        simhook::install(Box::new(Hooks(self.clone())));
    }
    pub fn uninstall() {
        simhook::uninstall();
    }

    fn sched_order(&self, n: usize) -> Vec<usize> {
        let policy = self.0.lock().unwrap().sched.clone();
        let mut o: Vec<usize> = (0..n).collect();
        match policy {
            SchedPolicy::InOrder => {}
            SchedPolicy::Reverse => o.reverse(),
            SchedPolicy::Rotate(k) => {
                if n > 0 {
                    o.rotate_left(k % n)
                }
            }
            SchedPolicy::Scripted(v) => {
                if v.len() == n {
                    o = v.as_ref().clone();
                }
            }
            SchedPolicy::Random => {
                // Fisher-Yates; an all-zero draw sequence is the identity
                for i in 0..n.saturating_sub(1) {
                    let j = i + self.draw(Stream::S, (n - i) as u64, "perm") as usize;
                    o.swap(i, j);
                }
            }
        }
        o
    }
}

struct Hooks(Ctx);
impl simhook::SimHooks for Hooks {
    fn order(&mut self, n: usize, _site: &'static str) -> Vec<usize> {
        let o = self.0.sched_order(n);
        let mut h = n as u64;
        for &i in &o {
            h = mix(h, i as u64);
        }
        self.0.event("section", n as u64, h);
        let mut g = (self.0).0.lock().unwrap();
        g.sections += 1;
        if n >= 2 && g.orders.len() < 256 {
            g.orders.push(o.clone());
        }
        o
    }
    fn flip(&mut self, _site: &'static str) -> bool {
        let v = self.0.draw(Stream::S, 2, "join") == 1;
        self.0.event("join", v as u64, 0);
        v
    }
    fn fill(&mut self, buf: &mut [u8]) {
        let mode = (self.0).0.lock().unwrap().rng_mode;
        match mode {
            RngMode::Zero => buf.fill(0),
            RngMode::Ones => buf.fill(0xFF),
            RngMode::Uniform => {
                for ch in buf.chunks_mut(8) {
                    let v = self.0.draw(Stream::R, 0, "rng").to_le_bytes();
                    ch.copy_from_slice(&v[..ch.len()]);
                }
            }
            RngMode::PdfSpecial => {
                for b in buf.iter_mut() {
                    *b = PDF_SPECIAL[self.0.draw(Stream::R, PDF_SPECIAL.len() as u64, "rng") as usize];
                }
            }
            RngMode::Repeat16 => {
                let blk = {
                    let cur = (self.0).0.lock().unwrap().rng_block;
                    match cur {
                        Some(b) => b,
                        None => {
                            let mut b = [0u8; 16];
                            b[..8].copy_from_slice(&self.0.draw(Stream::R, 0, "rng").to_le_bytes());
                            b[8..].copy_from_slice(&self.0.draw(Stream::R, 0, "rng").to_le_bytes());
                            (self.0).0.lock().unwrap().rng_block = Some(b);
                            b
                        }
                    }
                };
                for (i, b) in buf.iter_mut().enumerate() {
                    *b = blk[i % 16];
                }
            }
        }
        (self.0).0.lock().unwrap().rng_bytes += buf.len() as u64;
        self.0.event("rng", buf.len() as u64, crate::fnv(buf));
    }
    fn num_threads(&mut self) -> usize {
        (self.0).0.lock().unwrap().num_threads
    }
    fn choose(&mut self, n: usize, site: &'static str) -> usize {
        let v = self.0.draw(Stream::S, n as u64, site) as usize;
        self.0.event("choose", n as u64, v as u64);
        v
    }
    fn mode_t(&mut self, n: usize) -> Option<(usize, simhook::baton::Chooser)> {
        let w = (self.0).0.lock().unwrap().mode_t?;
        self.0.event("section-threads", n as u64, w as u64);
        (self.0).0.lock().unwrap().sections += 1;
        let ctx = self.0.clone();
        let preempt = (self.0).0.lock().unwrap().alloc_preempt;
        let chooser: simhook::baton::Chooser = Arc::new(Mutex::new(move |k: usize, kind: &'static str| {
            // the preemption plan is drawn only where the scenario asked for it (0 = no preemption)
            if !preempt && kind.starts_with("alloc-") {
                return 0;
            }
            let v = ctx.draw(Stream::S, k as u64, kind) as usize;
            ctx.event("baton", k as u64, v as u64);
            ctx.count(match kind {
                "lock" => "baton-choice-at-lock",
                "unlock" => "baton-choice-at-unlock",
                "locked" => "baton-choice-inside-critical-section",
                "contended" => "baton-choice-at-contended-lock",
                "claim" => "baton-choice-at-claim",
                "claim-item" => "baton-choice-of-item",
                "finish" => "baton-choice-at-finish",
                "alloc" => "baton-choice-at-allocation-point",
                "alloc-preempt-budget" | "alloc-gap-scale" | "alloc-gap" => "baton-preemption-plan-draws",
                _ => "baton-choice-other",
            });
            v
        }));
        Some((w, chooser))
    }
}
