use std::collections::BTreeMap;

pub type MDict = Vec<(Vec<u8>, MObj)>;

#[derive(Clone, Debug, PartialEq)]
pub enum MObj {
    Null,
    Bool(bool),
    Int(i64),
    Real(f32),
    Name(Vec<u8>),
    /// bytes, is_hex
    Str(Vec<u8>, bool),
    Array(Vec<MObj>),
    Dict(MDict),
    /// dictionary (including `Length` as the producer states it) and body
    Stream(MDict, Vec<u8>),
    Ref(u32, u16),
}

#[derive(Clone, Debug, PartialEq)]
pub struct MDoc {
    pub version: String,
    pub binary_mark: Vec<u8>,
    pub objects: BTreeMap<(u32, u16), MObj>,
    pub trailer: MDict,
    pub max_id: u32,
    /// cross-reference stream (true) or classic table (false)
    pub xref_stream: bool,
}

impl MDoc {
    pub fn empty() -> MDoc {
        MDoc {
            version: "1.5".into(),
            binary_mark: vec![0xBB, 0xAD, 0xC0, 0xDE],
            objects: BTreeMap::new(),
            trailer: Vec::new(),
            max_id: 0,
            xref_stream: false,
        }
    }
}

pub fn dict_get<'a>(d: &'a MDict, k: &[u8]) -> Option<&'a MObj> {
    d.iter().find(|(kk, _)| kk == k).map(|(_, v)| v)
}
pub fn dict_set(d: &mut MDict, k: &[u8], v: MObj) {
    if let Some(e) = d.iter_mut().find(|(kk, _)| kk == k) {
        e.1 = v;
    } else {
        d.push((k.to_vec(), v));
    }
}
pub fn dict_remove(d: &mut MDict, k: &[u8]) -> Option<MObj> {
    d.iter().position(|(kk, _)| kk == k).map(|i| d.remove(i).1)
}

/// Trailer keys that are cross-reference bookkeeping (rule R3).
pub const XREF_BOOKKEEPING: [&[u8]; 10] =
    [b"Size", b"Prev", b"XRefStm", b"Type", b"W", b"Index", b"Length", b"Filter", b"DecodeParms", b"Columns"];

pub fn trailer_payload(t: &MDict) -> MDict {
    t.iter().filter(|(k, _)| !XREF_BOOKKEEPING.contains(&k.as_slice())).cloned().collect()
}

fn show_bytes(b: &[u8]) -> String {
    let mut s = String::new();
    for &c in b.iter().take(48) {
        if (32..127).contains(&c) && c != b'\\' {
            s.push(c as char)
        } else {
            s.push_str(&format!("\\x{:02x}", c))
        }
    }
    if b.len() > 48 {
        s.push_str(&format!("..({} bytes)", b.len()));
    }
    s
}

pub fn show(o: &MObj) -> String {
    match o {
        MObj::Null => "null".into(),
        MObj::Bool(b) => b.to_string(),
        MObj::Int(i) => i.to_string(),
        MObj::Real(r) => format!("Real({:?} bits {:08x})", r, r.to_bits()),
        MObj::Name(n) => format!("/{}", show_bytes(n)),
        MObj::Str(s, hex) => format!("{}({})", if *hex { "hex" } else { "lit" }, show_bytes(s)),
        MObj::Array(a) => {
            let mut s = String::from("[");
            for (i, x) in a.iter().enumerate().take(8) {
                if i > 0 {
                    s.push(' ');
                }
                s.push_str(&show(x));
            }
            if a.len() > 8 {
                s.push_str(&format!(" ..{} items", a.len()));
            }
            s.push(']');
            s
        }
        MObj::Dict(d) => show_dict(d),
        MObj::Stream(d, body) => format!("stream{} body={}", show_dict(d), show_bytes(body)),
        MObj::Ref(n, g) => format!("{} {} R", n, g),
    }
}
fn show_dict(d: &MDict) -> String {
    let mut s = String::from("<<");
    for (k, v) in d.iter().take(8) {
        s.push_str(&format!("/{} {} ", show_bytes(k), show(v)));
    }
    if d.len() > 8 {
        s.push_str(&format!("..{} keys", d.len()));
    }
    s.push_str(">>");
    s
}

/// Equality of one object under rule R1 (an integral real may come back as the
/// integer of the same single-precision value). Dictionaries are compared as
/// maps (key order is not part of any property). Returns the path of the first
/// difference.
pub fn same_obj(exp: &MObj, got: &MObj, path: &mut String) -> Result<(), String> {
    let fail = |p: &str| Err(format!("{}: expected {} got {}", p, show(exp), show(got)));
    match (exp, got) {
        (MObj::Null, MObj::Null) => Ok(()),
        (MObj::Bool(a), MObj::Bool(b)) if a == b => Ok(()),
        (MObj::Int(a), MObj::Int(b)) if a == b => Ok(()),
        (MObj::Real(a), MObj::Real(b)) if a.to_bits() == b.to_bits() || (*a == 0.0 && *b == 0.0) => Ok(()),
        (MObj::Real(a), MObj::Int(b)) if a.fract() == 0.0 && (*b as f32) == *a => Ok(()),
        (MObj::Name(a), MObj::Name(b)) if a == b => Ok(()),
        (MObj::Str(a, fa), MObj::Str(b, fb)) if a == b && fa == fb => Ok(()),
        (MObj::Ref(a, b), MObj::Ref(c, d)) if a == c && b == d => Ok(()),
        (MObj::Array(a), MObj::Array(b)) => {
            if a.len() != b.len() {
                return fail(path);
            }
            for (i, (x, y)) in a.iter().zip(b).enumerate() {
                let l = path.len();
                path.push_str(&format!("[{}]", i));
                same_obj(x, y, path)?;
                path.truncate(l);
            }
            Ok(())
        }
        (MObj::Dict(a), MObj::Dict(b)) => same_dict(a, b, path),
        (MObj::Stream(da, ba), MObj::Stream(db, bb)) => {
            same_dict(da, db, path)?;
            if ba != bb {
                return Err(format!(
                    "{}: stream body differs: expected {} bytes {} got {} bytes {}",
                    path,
                    ba.len(),
                    show_bytes(ba),
                    bb.len(),
                    show_bytes(bb)
                ));
            }
            Ok(())
        }
        _ => fail(path),
    }
}

pub fn same_dict(a: &MDict, b: &MDict, path: &mut String) -> Result<(), String> {
    if a.len() != b.len() {
        return Err(format!("{}: dictionary size differs: expected {} got {}", path, show_dict(a), show_dict(b)));
    }
    for (k, v) in a {
        match dict_get(b, k) {
            None => return Err(format!("{}: key /{} missing in {}", path, show_bytes(k), show_dict(b))),
            Some(w) => {
                let l = path.len();
                path.push_str(&format!("/{}", show_bytes(k)));
                same_obj(v, w, path)?;
                path.truncate(l);
            }
        }
    }
    Ok(())
}

/// Stable, order-sensitive digest of a value (used by C08: determinism is
/// about the whole value, including dictionary order).
pub fn digest_obj(o: &MObj, h: &mut u64) {
    fn mixb(h: &mut u64, b: &[u8]) {
        *h = simcore::mix(*h, b.len() as u64);
        *h = simcore::mix(*h, simcore::fnv(b));
    }
    match o {
        MObj::Null => *h = simcore::mix(*h, 1),
        MObj::Bool(b) => *h = simcore::mix(*h, 2 + *b as u64),
        MObj::Int(i) => *h = simcore::mix(simcore::mix(*h, 4), *i as u64),
        MObj::Real(r) => *h = simcore::mix(simcore::mix(*h, 5), r.to_bits() as u64),
        MObj::Name(n) => {
            *h = simcore::mix(*h, 6);
            mixb(h, n)
        }
        MObj::Str(s, hex) => {
            *h = simcore::mix(*h, 7 + *hex as u64);
            mixb(h, s)
        }
        MObj::Array(a) => {
            *h = simcore::mix(simcore::mix(*h, 9), a.len() as u64);
            for x in a {
                digest_obj(x, h)
            }
        }
        MObj::Dict(d) => {
            *h = simcore::mix(simcore::mix(*h, 10), d.len() as u64);
            for (k, v) in d {
                mixb(h, k);
                digest_obj(v, h)
            }
        }
        MObj::Stream(d, b) => {
            *h = simcore::mix(simcore::mix(*h, 11), d.len() as u64);
            for (k, v) in d {
                mixb(h, k);
                digest_obj(v, h)
            }
            mixb(h, b)
        }
        MObj::Ref(n, g) => *h = simcore::mix(simcore::mix(simcore::mix(*h, 12), *n as u64), *g as u64),
    }
}

/// Difference between two documents: (class, detail).
pub type DocDiff = (&'static str, String);

/// Compare a loaded document with the expected model under R1-R4.
/// `extra_ok(id, obj)` decides whether an object absent from the model is one
/// of the structural extras R2 allows.
pub fn same_doc(
    exp: &MDoc, got: &MDoc, extra_ok: &dyn Fn((u32, u16), &MObj) -> bool,
) -> Result<(), DocDiff> {
    if exp.version != got.version {
        return Err(("version-differs", format!("version: expected {:?} got {:?}", exp.version, got.version)));
    }
    for (id, o) in &exp.objects {
        match got.objects.get(id) {
            None => {
                return Err(("object-missing", format!("object {} {} missing after load (expected {})", id.0, id.1, show(o))))
            }
            Some(g) => {
                let mut p = format!("obj {} {}", id.0, id.1);
                same_obj(o, g, &mut p).map_err(|e| ("object-differs", e))?;
            }
        }
    }
    for (id, g) in &got.objects {
        if !exp.objects.contains_key(id) && !extra_ok(*id, g) {
            return Err(("unexpected-object", format!("unexpected object {} {} after load: {}", id.0, id.1, show(g))));
        }
    }
    let (te, tg) = (trailer_payload(&exp.trailer), trailer_payload(&got.trailer));
    same_dict(&te, &tg, &mut "trailer".to_string()).map_err(|e| ("trailer-differs", e))?;
    let max_used = got.objects.keys().map(|k| k.0).max().unwrap_or(0);
    if got.max_id < max_used {
        return Err(("max-id-too-small", format!("max_id {} below highest object number {}", got.max_id, max_used)));
    }
    Ok(())
}

pub fn is_xref_stream_obj(o: &MObj) -> bool {
    matches!(o, MObj::Stream(d, _) if dict_get(d, b"Type") == Some(&MObj::Name(b"XRef".to_vec())))
}
pub fn is_objstm_obj(o: &MObj) -> bool {
    matches!(o, MObj::Stream(d, _) if dict_get(d, b"Type") == Some(&MObj::Name(b"ObjStm".to_vec())))
}

/// Canonical form: dictionary keys sorted (key order is not part of any
/// property; lopdf's `Dictionary::remove` reorders keys).
pub fn canon(o: &MObj) -> MObj {
    let cd = |d: &MDict| -> MDict {
        let mut v: MDict = d.iter().map(|(k, x)| (k.clone(), canon(x))).collect();
        v.sort_by(|a, b| a.0.cmp(&b.0));
        v
    };
    match o {
        MObj::Array(a) => MObj::Array(a.iter().map(canon).collect()),
        MObj::Dict(d) => MObj::Dict(cd(d)),
        MObj::Stream(d, b) => MObj::Stream(cd(d), b.clone()),
        other => other.clone(),
    }
}

pub fn canon_doc(mut d: MDoc) -> MDoc {
    for (_, o) in d.objects.iter_mut() {
        *o = canon(o);
    }
    if let MObj::Dict(t) = canon(&MObj::Dict(std::mem::take(&mut d.trailer))) {
        d.trailer = t;
    }
    d
}
