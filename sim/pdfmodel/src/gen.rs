//! Workload generator (swarm style: per-run parameters are drawn first, so
//! runs differ in *kind*, not only in values). All choices come from stream W.

use crate::model::*;
use simcore::{Ctx, Stream::W};

#[derive(Clone, Copy, Debug, PartialEq, Eq)]
pub enum Alphabet {
    Ascii,
    Delim,
    Escape,
    Binary,
}

#[derive(Clone, Debug)]
pub struct GenCfg {
    pub n_objects: usize,
    pub max_depth: usize,
    pub alphabet: Alphabet,
    /// 0 dense from 1, 1 gapped, 2 large numbers (<= 100000)
    pub id_layout: u8,
    pub nonzero_gen: bool,
    /// bit mask of enabled object kinds (swarm); containers are always possible
    pub kinds: u32,
    pub max_len: usize,
    pub xref_stream: bool,
    pub dangling_refs: bool,
    pub exotic_header: bool,
    pub max_id_slack: u32,
    pub big_reals: bool,
    /// carve-out switch: never produce integral reals outside the i64 range
    pub avoid_huge_integral_reals: bool,
}

pub fn draw_cfg(ctx: &Ctx) -> GenCfg {
    let n_objects = match ctx.draw(W, 10, "n-objects-class") {
        0..=5 => 1 + ctx.draw(W, 12, "n-objects") as usize,
        6..=8 => 1 + ctx.draw(W, 40, "n-objects") as usize,
        _ => 60 + ctx.draw(W, 200, "n-objects") as usize,
    };
    let max_depth = match ctx.draw(W, 10, "depth-class") {
        0..=6 => ctx.draw(W, 4, "depth") as usize,
        7..=8 => ctx.draw(W, 7, "depth") as usize,
        _ => 20 + ctx.draw(W, 60, "depth") as usize,
    };
    let alphabet = [Alphabet::Ascii, Alphabet::Delim, Alphabet::Escape, Alphabet::Binary][ctx.draw(W, 4, "alphabet") as usize];
    GenCfg {
        n_objects,
        max_depth,
        alphabet,
        id_layout: ctx.draw(W, 3, "id-layout") as u8,
        nonzero_gen: ctx.chance(W, 1, 3, "nonzero-gen"),
        kinds: {
            let k = ctx.draw(W, 1 << 10, "kinds") as u32;
            if k == 0 {
                0x3ff
            } else {
                k
            }
        },
        max_len: [4usize, 16, 64, 600][ctx.draw(W, 4, "max-len") as usize],
        xref_stream: ctx.chance(W, 1, 2, "xref-stream"),
        dangling_refs: ctx.chance(W, 1, 3, "dangling"),
        exotic_header: ctx.chance(W, 1, 4, "exotic-header"),
        max_id_slack: if ctx.chance(W, 1, 3, "slack") { ctx.draw(W, 6, "slack-n") as u32 } else { 0 },
        big_reals: ctx.chance(W, 1, 3, "big-reals"),
        avoid_huge_integral_reals: false,
    }
}

pub fn gen_bytes(ctx: &Ctx, alpha: Alphabet, max_len: usize) -> Vec<u8> {
    let n = ctx.draw(W, max_len as u64 + 1, "len") as usize;
    let mut v = Vec::with_capacity(n);
    for _ in 0..n {
        v.push(gen_byte(ctx, alpha));
    }
    v
}

fn gen_byte(ctx: &Ctx, alpha: Alphabet) -> u8 {
    let pick = |set: &[u8]| set[ctx.draw(W, set.len() as u64, "ch") as usize];
    match alpha {
        Alphabet::Ascii => pick(b"abcXYZ019_-.~"),
        Alphabet::Delim => pick(b"a()<>[]{}/% \tZ#"),
        Alphabet::Escape => pick(b"\\()#\r\n\x00\x0c0123478nrtbf\t a"),
        Alphabet::Binary => ctx.draw(W, 256, "ch") as u8,
    }
}

pub fn gen_real(ctx: &Ctx, cfg: &GenCfg) -> f32 {
    loop {
        let r = match ctx.draw(W, if cfg.big_reals { 9 } else { 6 }, "real-class") {
            0 => [0.5f32, -0.25, 1.5, 3.14, -100.125, 0.001][ctx.draw(W, 6, "real") as usize],
            1 => (ctx.draw(W, 2001, "real") as f32 - 1000.0) / 8.0,
            2 => [0.0f32, -0.0, 1.0, -1.0, 595.0, 842.0, 16777216.0, -16777216.0][ctx.draw(W, 8, "real") as usize],
            3 => ctx.draw(W, 1 << 24, "real") as f32 / 1000.0,
            4 => -(ctx.draw(W, 100000, "real") as f32) / 7.0,
            5 => (ctx.draw(W, 1 << 30, "real") as f32) * 3.0,
            // every class of finite f32: arbitrary bit patterns, tiny, huge
            6 => f32::from_bits(ctx.draw(W, 1 << 32, "real-bits") as u32),
            7 => [f32::MIN_POSITIVE, 1e-30, 1.0e-45, -1e-38, 1e10, 5.0e18, 9.3e18, 1e20, f32::MAX, f32::MIN, -1e25]
                [ctx.draw(W, 11, "real") as usize],
            _ => (ctx.draw(W, 1 << 20, "real") as f32) * 1.0e13,
        };
        if !r.is_finite() {
            continue;
        }
        if cfg.avoid_huge_integral_reals && r.abs() >= 9.0e18 {
            continue;
        }
        return r;
    }
}

pub fn gen_int(ctx: &Ctx) -> i64 {
    match ctx.draw(W, 6, "int-class") {
        0 | 1 => ctx.draw(W, 1000, "int") as i64,
        2 => -(ctx.draw(W, 1000, "int") as i64),
        3 => [0i64, 1, -1, 255, 65535, 65536, i32::MAX as i64, i32::MIN as i64, i64::MAX, i64::MIN, 4294967296]
            [ctx.draw(W, 11, "int") as usize],
        4 => ctx.draw(W, 0, "int") as i64,
        _ => ctx.draw(W, 1 << 40, "int") as i64,
    }
}

/// Names the generator never uses as keys of top-level dictionaries / streams
/// because the writer gives them structural meaning (documented carve-outs).
fn forbidden_key(k: &[u8]) -> bool {
    k == b"Type" || k == b"Linearized" || k == b"Length"
}

pub struct Gen<'a> {
    pub ctx: &'a Ctx,
    pub cfg: GenCfg,
    pub ids: Vec<(u32, u16)>,
    budget: usize,
}

impl<'a> Gen<'a> {
    pub fn new(ctx: &'a Ctx, cfg: GenCfg) -> Gen<'a> {
        Gen { ctx, cfg, ids: Vec::new(), budget: 0 }
    }

    fn gen_ids(&mut self) {
        let n = self.cfg.n_objects;
        let mut num: u32 = 0;
        self.ids.clear();
        for _ in 0..n {
            num += match self.cfg.id_layout {
                0 => 1,
                1 => 1 + self.ctx.draw(W, 4, "id-gap") as u32,
                _ => 1 + self.ctx.draw(W, (100_000 / n as u64).max(2), "id-gap") as u32,
            };
            let g = if self.cfg.nonzero_gen && self.ctx.chance(W, 1, 3, "gen-nz") {
                [1u16, 2, 7, 65535, 100][self.ctx.draw(W, 5, "gen") as usize]
            } else {
                0
            };
            self.ids.push((num, g));
        }
    }

    pub fn gen_ref(&mut self) -> MObj {
        if self.cfg.dangling_refs && self.ctx.chance(W, 1, 4, "dangle") {
            let n = 1 + self.ctx.draw(W, 120_000, "dangle-id") as u32;
            return MObj::Ref(n, self.ctx.draw(W, 3, "dangle-gen") as u16);
        }
        let (n, g) = self.ids[self.ctx.draw(W, self.ids.len() as u64, "ref") as usize];
        MObj::Ref(n, g)
    }

    pub fn gen_key(&mut self) -> Vec<u8> {
        loop {
            let k = if self.ctx.chance(W, 1, 2, "key-plain") {
                let names: [&[u8]; 8] = [b"A", b"Kids", b"Parent", b"Font", b"F1", b"Subtype", b"Root", b"Name"];
                names[self.ctx.draw(W, 8, "key") as usize].to_vec()
            } else {
                gen_bytes(self.ctx, self.cfg.alphabet, self.cfg.max_len.min(24))
            };
            if !forbidden_key(&k) {
                return k;
            }
        }
    }

    pub fn gen_dict(&mut self, depth: usize) -> MDict {
        let n = self.ctx.draw(W, 6, "dict-n") as usize;
        let mut d: MDict = Vec::new();
        for _ in 0..n {
            let k = self.gen_key();
            if dict_get(&d, &k).is_some() {
                continue;
            }
            let v = self.gen_obj(depth + 1, false);
            d.push((k, v));
        }
        d
    }

    /// `top`: may produce a stream (streams are indirect objects only).
    pub fn gen_obj(&mut self, depth: usize, top: bool) -> MObj {
        self.budget = self.budget.saturating_sub(1);
        let leaf_only = depth >= self.cfg.max_depth || self.budget == 0;
        // deep-nesting mode: keep descending through single-element containers
        if self.cfg.max_depth >= 20 && depth < self.cfg.max_depth && depth > 0 && self.ctx.chance(W, 9, 10, "deep") {
            let inner = self.gen_obj(depth + 1, false);
            return if self.ctx.chance(W, 1, 3, "deep-dict") {
                MObj::Dict(vec![(b"K".to_vec(), inner)])
            } else {
                MObj::Array(vec![inner])
            };
        }
        loop {
            let k = self.ctx.draw(W, if top { 12 } else { 10 }, "kind") as u32;
            let kind_bit = k.min(9);
            if self.cfg.kinds & (1 << kind_bit) == 0 && !(top && k >= 10) {
                // kind disabled in this run; containers/leafs remain reachable because
                // `kinds` is never zero, and Null is the fallback
                if self.ctx.chance(W, 3, 4, "kind-retry") {
                    continue;
                }
                return MObj::Null;
            }
            return match k {
                0 => MObj::Null,
                1 => MObj::Bool(self.ctx.chance(W, 1, 2, "bool")),
                2 => MObj::Int(gen_int(self.ctx)),
                3 => MObj::Real(gen_real(self.ctx, &self.cfg)),
                4 => MObj::Name(gen_bytes(self.ctx, self.cfg.alphabet, self.cfg.max_len.min(40))),
                5 => {
                    if self.ctx.chance(W, 1, 24, "keyword-string") {
                        let words: [&[u8]; 5] = [b"startxref\n12\n%%EOF", b"%%EOF", b"endobj", b"trailer <</Size 1>>", b"%PDF-1.7"];
                        MObj::Str(words[self.ctx.draw(W, 5, "keyword") as usize].to_vec(), false)
                    } else {
                        MObj::Str(gen_bytes(self.ctx, self.cfg.alphabet, self.cfg.max_len), false)
                    }
                }
                6 => MObj::Str(gen_bytes(self.ctx, self.cfg.alphabet, self.cfg.max_len), true),
                7 => self.gen_ref(),
                8 => {
                    if leaf_only {
                        MObj::Array(vec![])
                    } else {
                        let n = self.ctx.draw(W, 7, "arr-n") as usize;
                        MObj::Array((0..n).map(|_| self.gen_obj(depth + 1, false)).collect())
                    }
                }
                9 => {
                    if leaf_only {
                        MObj::Dict(vec![])
                    } else {
                        MObj::Dict(self.gen_dict(depth))
                    }
                }
                _ => {
                    let mut d = if leaf_only { vec![] } else { self.gen_dict(depth) };
                    let body = self.gen_stream_body();
                    d.push((b"Length".to_vec(), MObj::Int(body.len() as i64)));
                    MObj::Stream(d, body)
                }
            };
        }
    }

    pub fn gen_stream_body(&mut self) -> Vec<u8> {
        let mut b = match self.ctx.draw(W, 7, "body-class") {
            0 => Vec::new(),
            1 => gen_bytes(self.ctx, Alphabet::Binary, self.cfg.max_len * 4),
            2 => {
                let mut v = gen_bytes(self.ctx, self.cfg.alphabet, self.cfg.max_len);
                v.extend_from_slice(b"\nendstream\nendobj\n");
                v.extend(gen_bytes(self.ctx, self.cfg.alphabet, 8));
                v
            }
            3 => b"BT /F1 12 Tf (hello) Tj ET".to_vec(),
            // user data that looks like file structure (an embedded PDF, say)
            4 => b"1 0 obj\n<< /Length 3 >>\nstream\nabc\nendstream\nendobj\nxref\n0 1\n0000000000 65535 f \ntrailer\n<< /Size 1 >>\nstartxref\n9\n%%EOF\n".to_vec(),
            _ => gen_bytes(self.ctx, self.cfg.alphabet, self.cfg.max_len * 2),
        };
        match self.ctx.draw(W, 6, "body-tail") {
            1 => b.push(b'\r'),
            2 => b.push(b'\n'),
            3 => b.extend_from_slice(b"\r\n"),
            _ => {}
        }
        b
    }

    pub fn gen_doc(&mut self) -> MDoc {
        self.gen_ids();
        let mut doc = MDoc::empty();
        doc.xref_stream = self.cfg.xref_stream;
        if self.cfg.exotic_header {
            doc.version = match self.ctx.draw(W, 5, "version") {
                0 => "1.0".to_string(),
                1 => "2.0".to_string(),
                2 => "1.7 extra text".to_string(),
                3 => String::new(),
                _ => "1.4".to_string(),
            };
            let n = self.ctx.draw(W, 9, "mark-len") as usize;
            doc.binary_mark = (0..n).map(|_| 128 + self.ctx.draw(W, 128, "mark") as u8).collect();
        }
        let ids = self.ids.clone();
        for id in &ids {
            self.budget = 400;
            let o = self.gen_obj(0, true);
            doc.objects.insert(*id, o);
        }
        // trailer: Root/Info-like references plus a few generated entries
        if self.ctx.chance(W, 3, 4, "root") {
            let r = self.gen_ref();
            doc.trailer.push((b"Root".to_vec(), r));
        }
        if self.ctx.chance(W, 1, 2, "info") {
            let r = self.gen_ref();
            doc.trailer.push((b"Info".to_vec(), r));
        }
        if self.ctx.chance(W, 1, 3, "trailer-id") {
            let a = gen_bytes(self.ctx, Alphabet::Binary, 16);
            let b = gen_bytes(self.ctx, self.cfg.alphabet, 16);
            doc.trailer.push((b"ID".to_vec(), MObj::Array(vec![MObj::Str(a, true), MObj::Str(b, false)])));
        }
        if self.ctx.chance(W, 1, 4, "trailer-extra") {
            self.budget = 50;
            let k = loop {
                let k = self.gen_key();
                if !XREF_BOOKKEEPING.contains(&k.as_slice()) && dict_get(&doc.trailer, &k).is_none() && k != b"Encrypt" {
                    break k;
                }
            };
            let v = self.gen_obj(1, false);
            doc.trailer.push((k, v));
        }
        let max_num = ids.iter().map(|i| i.0).max().unwrap_or(0);
        doc.max_id = max_num + self.cfg.max_id_slack;
        doc
    }
}

pub fn gen_doc(ctx: &Ctx) -> (MDoc, GenCfg) {
    let cfg = draw_cfg(ctx);
    let mut g = Gen::new(ctx, cfg.clone());
    (g.gen_doc(), cfg)
}
