//! Strict third-party reader (the "consumer" party of C03, and the oracle that
//! keeps the reference writer honest). Independent of lopdf: it accepts only
//! what ISO 32000-1 requires and follows only `startxref` → cross-reference
//! section → offsets → `Prev`. Every structural requirement C03 lists is
//! checked; every byte of the file must be accounted for.

use crate::model::*;
use std::collections::{BTreeMap, BTreeSet};

#[derive(Clone, Debug, Default)]
pub struct StrictOpts {
    /// bytes `[0, trusted_prefix)` are a previously accepted image (incremental
    /// save): not re-validated for byte accounting, but still read through `Prev`
    pub trusted_prefix: usize,
    /// allow arbitrary bytes before the header (foreign files only)
    pub allow_leading_junk: bool,
    /// do not insist on the binary comment line after the header (files whose
    /// first revision comes from a foreign producer)
    pub binary_comment_optional: bool,
}

#[derive(Clone, Debug)]
pub struct StrictDoc {
    /// objects as defined by the newest cross-reference information, structural
    /// objects (xref streams, object-stream containers) excluded
    pub doc: MDoc,
    pub xref_stream_ids: Vec<u32>,
    pub objstm_ids: Vec<u32>,
    /// startxref value of the newest section, then each Prev
    pub section_offsets: Vec<usize>,
    /// trailer dictionaries (newest first), bookkeeping included
    pub trailers: Vec<MDict>,
    /// object numbers defined by the newest section only
    pub newest_section_ids: Vec<u32>,
}

type R<T> = Result<T, String>;

fn is_ws(c: u8) -> bool {
    matches!(c, 0 | 9 | 10 | 12 | 13 | 32)
}
fn is_delim(c: u8) -> bool {
    b"()<>[]{}/%".contains(&c)
}
fn is_regular(c: u8) -> bool {
    !is_ws(c) && !is_delim(c)
}

pub struct P<'a> {
    pub b: &'a [u8],
    pub i: usize,
}

impl<'a> P<'a> {
    pub fn new(b: &'a [u8], i: usize) -> P<'a> {
        P { b, i }
    }
    fn peek(&self) -> Option<u8> {
        self.b.get(self.i).copied()
    }
    fn starts(&self, s: &[u8]) -> bool {
        self.b[self.i.min(self.b.len())..].starts_with(s)
    }
    fn err<T>(&self, m: &str) -> R<T> {
        Err(format!("{} at byte {}", m, self.i))
    }
    /// white-space and comments
    pub fn skip_ws(&mut self) {
        loop {
            match self.peek() {
                Some(c) if is_ws(c) => self.i += 1,
                Some(b'%') => {
                    while let Some(c) = self.peek() {
                        if c == b'\n' || c == b'\r' {
                            break;
                        }
                        self.i += 1;
                    }
                }
                _ => break,
            }
        }
    }
    fn eol(&mut self) -> bool {
        if self.starts(b"\r\n") {
            self.i += 2;
            true
        } else if self.starts(b"\n") || self.starts(b"\r") {
            self.i += 1;
            true
        } else {
            false
        }
    }
    fn keyword(&mut self, k: &[u8]) -> R<()> {
        if self.starts(k) && self.b.get(self.i + k.len()).map_or(true, |&c| !is_regular(c)) {
            self.i += k.len();
            Ok(())
        } else {
            self.err(&format!("expected keyword {:?}", String::from_utf8_lossy(k)))
        }
    }
    fn uint(&mut self) -> R<u64> {
        let s = self.i;
        while self.peek().map_or(false, |c| c.is_ascii_digit()) {
            self.i += 1;
        }
        if s == self.i {
            return self.err("expected unsigned integer");
        }
        std::str::from_utf8(&self.b[s..self.i]).unwrap().parse::<u64>().map_err(|_| format!("integer too large at byte {}", s))
    }

    fn number(&mut self) -> R<MObj> {
        let s = self.i;
        if matches!(self.peek(), Some(b'+') | Some(b'-')) {
            self.i += 1;
        }
        let d0 = self.i;
        while self.peek().map_or(false, |c| c.is_ascii_digit()) {
            self.i += 1;
        }
        let int_digits = self.i - d0;
        let mut real = false;
        let mut frac_digits = 0;
        if self.peek() == Some(b'.') {
            real = true;
            self.i += 1;
            let f0 = self.i;
            while self.peek().map_or(false, |c| c.is_ascii_digit()) {
                self.i += 1;
            }
            frac_digits = self.i - f0;
        }
        if int_digits + frac_digits == 0 {
            self.i = s;
            return self.err("malformed number");
        }
        if self.peek().map_or(false, is_regular) {
            return self.err("number followed by a regular character");
        }
        let txt = std::str::from_utf8(&self.b[s..self.i]).unwrap();
        if real {
            let t = txt.trim_start_matches('+');
            t.parse::<f32>().map(MObj::Real).map_err(|_| format!("bad real {:?} at byte {}", txt, s))
        } else {
            txt.trim_start_matches('+')
                .parse::<i64>()
                .map(MObj::Int)
                .map_err(|_| format!("integer {:?} at byte {} does not fit 64 bits", txt, s))
        }
    }

    fn name(&mut self) -> R<Vec<u8>> {
        if self.peek() != Some(b'/') {
            return self.err("expected name");
        }
        self.i += 1;
        let mut out = Vec::new();
        while let Some(c) = self.peek() {
            if !is_regular(c) {
                break;
            }
            if c == b'#' {
                let h = self.b.get(self.i + 1..self.i + 3).ok_or_else(|| format!("truncated # escape at byte {}", self.i))?;
                let v = u8::from_str_radix(std::str::from_utf8(h).map_err(|_| "bad # escape".to_string())?, 16)
                    .map_err(|_| format!("bad # escape at byte {}", self.i))?;
                out.push(v);
                self.i += 3;
            } else {
                out.push(c);
                self.i += 1;
            }
        }
        Ok(out)
    }

    fn literal_string(&mut self) -> R<Vec<u8>> {
        self.i += 1; // (
        let mut depth = 1;
        let mut out = Vec::new();
        loop {
            let Some(c) = self.peek() else { return self.err("unterminated literal string") };
            self.i += 1;
            match c {
                b'(' => {
                    depth += 1;
                    out.push(c)
                }
                b')' => {
                    depth -= 1;
                    if depth == 0 {
                        return Ok(out);
                    }
                    out.push(c)
                }
                b'\r' => {
                    if self.peek() == Some(b'\n') {
                        self.i += 1;
                    }
                    out.push(b'\n')
                }
                b'\\' => {
                    let Some(e) = self.peek() else { return self.err("unterminated escape") };
                    self.i += 1;
                    match e {
                        b'n' => out.push(b'\n'),
                        b'r' => out.push(b'\r'),
                        b't' => out.push(b'\t'),
                        b'b' => out.push(8),
                        b'f' => out.push(12),
                        b'\r' => {
                            if self.peek() == Some(b'\n') {
                                self.i += 1;
                            }
                        }
                        b'\n' => {}
                        b'0'..=b'7' => {
                            let mut v: u32 = (e - b'0') as u32;
                            for _ in 0..2 {
                                match self.peek() {
                                    Some(d @ b'0'..=b'7') => {
                                        v = v * 8 + (d - b'0') as u32;
                                        self.i += 1;
                                    }
                                    _ => break,
                                }
                            }
                            out.push(v as u8)
                        }
                        other => out.push(other),
                    }
                }
                _ => out.push(c),
            }
        }
    }

    fn hex_string(&mut self) -> R<Vec<u8>> {
        self.i += 1; // <
        let mut out = Vec::new();
        let mut hi: Option<u8> = None;
        loop {
            let Some(c) = self.peek() else { return self.err("unterminated hex string") };
            self.i += 1;
            if c == b'>' {
                if let Some(h) = hi {
                    out.push(h << 4);
                }
                return Ok(out);
            }
            if is_ws(c) {
                continue;
            }
            let v = (c as char).to_digit(16).ok_or_else(|| format!("bad hex digit at byte {}", self.i - 1))? as u8;
            match hi.take() {
                None => hi = Some(v),
                Some(h) => out.push(h << 4 | v),
            }
        }
    }

    /// A direct object (no stream).
    pub fn object(&mut self, depth: usize) -> R<MObj> {
        if depth > 1000 {
            return self.err("nesting too deep");
        }
        self.skip_ws();
        match self.peek() {
            None => self.err("unexpected end of data"),
            Some(b'/') => Ok(MObj::Name(self.name()?)),
            Some(b'(') => Ok(MObj::Str(self.literal_string()?, false)),
            Some(b'<') => {
                if self.starts(b"<<") {
                    Ok(MObj::Dict(self.dict(depth)?))
                } else {
                    Ok(MObj::Str(self.hex_string()?, true))
                }
            }
            Some(b'[') => {
                self.i += 1;
                let mut v = Vec::new();
                loop {
                    self.skip_ws();
                    if self.peek() == Some(b']') {
                        self.i += 1;
                        return Ok(MObj::Array(v));
                    }
                    v.push(self.object(depth + 1)?);
                }
            }
            Some(c) if c.is_ascii_digit() || c == b'+' || c == b'-' || c == b'.' => {
                // reference lookahead: uint ws uint ws R
                let save = self.i;
                if c.is_ascii_digit() {
                    if let Ok(n) = self.uint() {
                        let after_n = self.i;
                        self.skip_ws();
                        if self.i > after_n && self.peek().map_or(false, |c| c.is_ascii_digit()) {
                            if let Ok(g) = self.uint() {
                                let after_g = self.i;
                                self.skip_ws();
                                if self.i > after_g && self.keyword(b"R").is_ok() {
                                    if n > u32::MAX as u64 || g > u16::MAX as u64 {
                                        return self.err("reference out of range");
                                    }
                                    return Ok(MObj::Ref(n as u32, g as u16));
                                }
                            }
                        }
                    }
                }
                self.i = save;
                self.number()
            }
            Some(_) => {
                if self.keyword(b"true").is_ok() {
                    Ok(MObj::Bool(true))
                } else if self.keyword(b"false").is_ok() {
                    Ok(MObj::Bool(false))
                } else if self.keyword(b"null").is_ok() {
                    Ok(MObj::Null)
                } else {
                    self.err("unexpected token")
                }
            }
        }
    }

    fn dict(&mut self, depth: usize) -> R<MDict> {
        self.i += 2; // <<
        let mut d: MDict = Vec::new();
        loop {
            self.skip_ws();
            if self.starts(b">>") {
                self.i += 2;
                return Ok(d);
            }
            let k = self.name()?;
            let v = self.object(depth + 1)?;
            if dict_get(&d, &k).is_some() {
                return self.err("duplicate dictionary key");
            }
            d.push((k, v));
        }
    }
}

// ---------------------------------------------------------------- filters

pub fn inflate(data: &[u8]) -> R<Vec<u8>> {
    use std::io::Read;
    let mut out = Vec::new();
    flate2::read::ZlibDecoder::new(data).read_to_end(&mut out).map_err(|e| format!("zlib: {e}"))?;
    Ok(out)
}

pub fn png_unpredict(data: &[u8], columns: usize, colors: usize, bpc: usize) -> R<Vec<u8>> {
    let bpp = ((colors * bpc) / 8).max(1);
    let row = (columns * colors * bpc + 7) / 8;
    if row == 0 || data.len() % (row + 1) != 0 {
        return Err(format!("predictor: data length {} is not a multiple of row length {}+1", data.len(), row));
    }
    let mut out = Vec::with_capacity(data.len());
    let mut prev = vec![0u8; row];
    for r in data.chunks(row + 1) {
        let ft = r[0];
        let mut cur = r[1..].to_vec();
        for i in 0..row {
            let a = if i >= bpp { cur[i - bpp] } else { 0 } as i32;
            let b = prev[i] as i32;
            let c = if i >= bpp { prev[i - bpp] } else { 0 } as i32;
            let add = match ft {
                0 => 0,
                1 => a,
                2 => b,
                3 => (a + b) / 2,
                4 => {
                    let p = a + b - c;
                    let (pa, pb, pc) = ((p - a).abs(), (p - b).abs(), (p - c).abs());
                    if pa <= pb && pa <= pc {
                        a
                    } else if pb <= pc {
                        b
                    } else {
                        c
                    }
                }
                _ => return Err(format!("predictor: bad row filter type {ft}")),
            };
            cur[i] = cur[i].wrapping_add(add as u8);
        }
        out.extend_from_slice(&cur);
        prev = cur;
    }
    Ok(out)
}

/// LZWDecode (ISO 32000-1 7.4.4): MSB-first codes of 9..12 bits, clear-table 256, end-of-data 257.
pub fn lzw_decode(data: &[u8], early_change: bool) -> R<Vec<u8>> {
    let mut out = Vec::new();
    let mut table: Vec<Vec<u8>> = Vec::new();
    let reset = |t: &mut Vec<Vec<u8>>| {
        t.clear();
        for i in 0..256u16 {
            t.push(vec![i as u8]);
        }
        t.push(vec![]);
        t.push(vec![]);
    };
    reset(&mut table);
    let (mut acc, mut nbits, mut pos) = (0u32, 0u32, 0usize);
    let mut width = 9u32;
    let mut prev: Option<Vec<u8>> = None;
    loop {
        while nbits < width {
            let Some(&b) = data.get(pos) else { return Ok(out) }; // missing EOD: take what is there
            acc = (acc << 8) | b as u32;
            nbits += 8;
            pos += 1;
        }
        let code = ((acc >> (nbits - width)) & ((1 << width) - 1)) as usize;
        nbits -= width;
        acc &= (1 << nbits) - 1;
        if code == 256 {
            reset(&mut table);
            width = 9;
            prev = None;
            continue;
        }
        if code == 257 {
            return Ok(out);
        }
        let entry = if code < table.len() {
            table[code].clone()
        } else if code == table.len() && prev.is_some() {
            let mut e = prev.clone().unwrap();
            e.push(e[0]);
            e
        } else {
            return Err(format!("LZW: code {code} beyond the table ({} entries)", table.len()));
        };
        out.extend_from_slice(&entry);
        if let Some(mut p) = prev.take() {
            p.push(entry[0]);
            table.push(p);
        }
        prev = Some(entry);
        let next = table.len() as u32 + early_change as u32;
        if next >= (1 << width) && width < 12 {
            width += 1;
        }
    }
}

pub fn ascii85_decode(data: &[u8]) -> R<Vec<u8>> {
    let mut out = Vec::new();
    let mut group: Vec<u32> = Vec::new();
    let mut i = 0;
    while i < data.len() {
        let c = data[i];
        i += 1;
        if is_ws(c) {
            continue;
        }
        if c == b'~' {
            break;
        }
        if c == b'z' && group.is_empty() {
            out.extend_from_slice(&[0, 0, 0, 0]);
            continue;
        }
        if !(b'!'..=b'u').contains(&c) {
            return Err(format!("ASCII85: bad character {c:#x}"));
        }
        group.push((c - b'!') as u32);
        if group.len() == 5 {
            let v = group.iter().fold(0u64, |a, &d| a * 85 + d as u64);
            if v > u32::MAX as u64 {
                return Err("ASCII85: group overflow".into());
            }
            out.extend_from_slice(&(v as u32).to_be_bytes());
            group.clear();
        }
    }
    if !group.is_empty() {
        if group.len() == 1 {
            return Err("ASCII85: single trailing character".into());
        }
        let n = group.len();
        while group.len() < 5 {
            group.push(84);
        }
        let v = group.iter().fold(0u64, |a, &d| a * 85 + d as u64) as u32;
        out.extend_from_slice(&v.to_be_bytes()[..n - 1]);
    }
    Ok(out)
}

fn int_of(d: &MDict, k: &[u8]) -> Option<i64> {
    match dict_get(d, k) {
        Some(MObj::Int(i)) => Some(*i),
        _ => None,
    }
}

/// Decode the body of a structural stream (xref stream, object stream): filter
/// chains over FlateDecode, LZWDecode and ASCII85Decode, `DecodeParms` as a
/// dictionary (single filter) or as an array parallel to the filters.
pub fn decode_structural(d: &MDict, body: &[u8]) -> R<Vec<u8>> {
    let filters: Vec<Vec<u8>> = match dict_get(d, b"Filter") {
        None => return Ok(body.to_vec()),
        Some(MObj::Name(n)) => vec![n.clone()],
        Some(MObj::Array(a)) => {
            let mut v = Vec::new();
            for x in a {
                match x {
                    MObj::Name(n) => v.push(n.clone()),
                    _ => return Err("Filter array element is not a name".into()),
                }
            }
            v
        }
        _ => return Err("unsupported Filter on a structural stream".into()),
    };
    let parms: Vec<Option<MDict>> = match dict_get(d, b"DecodeParms") {
        None => vec![None; filters.len()],
        Some(MObj::Dict(p)) if filters.len() == 1 => vec![Some(p.clone())],
        Some(MObj::Array(a)) if a.len() == filters.len() => a
            .iter()
            .map(|x| match x {
                MObj::Dict(p) => Ok(Some(p.clone())),
                MObj::Null => Ok(None),
                _ => Err("bad DecodeParms element".to_string()),
            })
            .collect::<R<Vec<_>>>()?,
        _ => return Err("DecodeParms does not match Filter".into()),
    };
    let mut data = body.to_vec();
    for (f, p) in filters.iter().zip(parms) {
        data = match f.as_slice() {
            b"FlateDecode" => inflate(&data)?,
            b"LZWDecode" => {
                let early = p.as_ref().and_then(|p| int_of(p, b"EarlyChange")).unwrap_or(1) != 0;
                lzw_decode(&data, early)?
            }
            b"ASCII85Decode" => ascii85_decode(&data)?,
            other => return Err(format!("unsupported filter /{} on a structural stream", String::from_utf8_lossy(other))),
        };
        if let Some(p) = p {
            let pred = int_of(&p, b"Predictor").unwrap_or(1);
            if pred >= 10 {
                let columns = int_of(&p, b"Columns").unwrap_or(1) as usize;
                let colors = int_of(&p, b"Colors").unwrap_or(1) as usize;
                let bpc = int_of(&p, b"BitsPerComponent").unwrap_or(8) as usize;
                data = png_unpredict(&data, columns, colors, bpc)?;
            } else if pred != 1 {
                return Err("unsupported predictor".into());
            }
        }
    }
    Ok(data)
}

// ---------------------------------------------------------------- file structure

#[derive(Clone, Debug, PartialEq)]
enum Entry {
    Free,
    InUse { offset: usize, gen: u16 },
    Compressed { container: u32, index: u32 },
}

struct Section {
    offset: usize,
    entries: BTreeMap<u32, Entry>,
    trailer: MDict,
    /// Some(object number) when the section is a cross-reference stream
    stream_id: Option<u32>,
    span: (usize, usize),
}

struct Reader<'a> {
    img: &'a [u8],
    covered: Vec<(usize, usize)>,
}

struct Indirect {
    id: (u32, u16),
    obj: MObj,
    end: usize,
}

impl<'a> Reader<'a> {
    fn cover(&mut self, s: usize, e: usize) {
        self.covered.push((s, e));
    }

    /// `N G obj <object> endobj` exactly at `off` (no leading white-space).
    /// `resolve_len` resolves an indirect Length.
    fn indirect_at(&self, off: usize, resolve_len: &dyn Fn(u32, u16) -> R<i64>) -> R<Indirect> {
        let img = self.img;
        if off >= img.len() || !img[off].is_ascii_digit() {
            return Err(format!("offset {} does not point at an object header (found {:?})", off, String::from_utf8_lossy(&img[off.min(img.len())..(off + 12).min(img.len())])));
        }
        let mut p = P::new(img, off);
        let n = p.uint()?;
        let a = p.i;
        p.skip_ws();
        if p.i == a {
            return p.err("missing white-space in object header");
        }
        let g = p.uint()?;
        let a = p.i;
        p.skip_ws();
        if p.i == a {
            return p.err("missing white-space in object header");
        }
        p.keyword(b"obj")?;
        if n > u32::MAX as u64 || g > 65535 {
            return Err(format!("object id {} {} out of range at {}", n, g, off));
        }
        let mut obj = p.object(0)?;
        p.skip_ws();
        if let (MObj::Dict(d), true) = (&obj, p.starts(b"stream")) {
            let d = d.clone();
            p.i += 6;
            if p.starts(b"\r\n") {
                p.i += 2;
            } else if p.starts(b"\n") {
                p.i += 1;
            } else {
                return p.err("'stream' keyword must be followed by CRLF or LF");
            }
            let len = match dict_get(&d, b"Length") {
                Some(MObj::Int(i)) => *i,
                Some(MObj::Ref(rn, rg)) => resolve_len(*rn, *rg)?,
                _ => return Err(format!("stream {} {} without a usable Length", n, g)),
            };
            if len < 0 || p.i + len as usize > img.len() {
                return Err(format!("stream {} {}: Length {} runs past the end of the file", n, g, len));
            }
            let body = img[p.i..p.i + len as usize].to_vec();
            p.i += len as usize;
            p.eol();
            if !p.starts(b"endstream") {
                return Err(format!(
                    "stream {} {}: Length {} does not equal the bytes between 'stream' EOL and 'endstream' (at byte {} found {:?})",
                    n,
                    g,
                    len,
                    p.i,
                    String::from_utf8_lossy(&img[p.i..(p.i + 12).min(img.len())])
                ));
            }
            p.i += 9;
            obj = MObj::Stream(d, body);
            p.skip_ws();
        }
        p.keyword(b"endobj").map_err(|e| format!("object {} {}: {}", n, g, e))?;
        Ok(Indirect { id: (n as u32, g as u16), obj, end: p.i })
    }

    fn section_at(&self, off: usize) -> R<Section> {
        let img = self.img;
        if off >= img.len() {
            return Err(format!("cross-reference offset {} is outside the file", off));
        }
        let mut p = P::new(img, off);
        if p.starts(b"xref") {
            p.i += 4;
            // optional spaces then EOL
            while p.peek() == Some(b' ') {
                p.i += 1;
            }
            if !p.eol() {
                return p.err("'xref' not followed by end-of-line");
            }
            let mut entries = BTreeMap::new();
            loop {
                // white-space and comments are legal before the `trailer` keyword
                p.skip_ws();
                if p.starts(b"trailer") {
                    break;
                }
                let start = p.uint().map_err(|e| format!("xref subsection header: {e}"))?;
                if p.peek() != Some(b' ') {
                    return p.err("xref subsection header: expected one space");
                }
                p.i += 1;
                let count = p.uint()?;
                while p.peek() == Some(b' ') {
                    p.i += 1;
                }
                if !p.eol() {
                    return p.err("xref subsection header not followed by end-of-line");
                }
                for k in 0..count {
                    let e = img.get(p.i..p.i + 20).ok_or_else(|| format!("truncated xref entry at byte {}", p.i))?;
                    let ok = e[..10].iter().all(|c| c.is_ascii_digit())
                        && e[10] == b' '
                        && e[11..16].iter().all(|c| c.is_ascii_digit())
                        && e[16] == b' '
                        && (e[17] == b'n' || e[17] == b'f')
                        && (&e[18..20] == b" \r" || &e[18..20] == b" \n" || &e[18..20] == b"\r\n");
                    if !ok {
                        return Err(format!("xref entry at byte {} is not a well-formed 20-byte entry: {:?}", p.i, String::from_utf8_lossy(e)));
                    }
                    let offset: usize = std::str::from_utf8(&e[..10]).unwrap().parse().unwrap();
                    let gen: u32 = std::str::from_utf8(&e[11..16]).unwrap().parse().unwrap();
                    let num = (start + k) as u32;
                    if entries.contains_key(&num) {
                        return Err(format!("object {} appears twice in one cross-reference section", num));
                    }
                    if e[17] == b'n' {
                        entries.insert(num, Entry::InUse { offset, gen: gen as u16 });
                    } else {
                        entries.insert(num, Entry::Free);
                    }
                    p.i += 20;
                }
            }
            p.keyword(b"trailer")?;
            p.skip_ws();
            if !p.starts(b"<<") {
                return p.err("trailer dictionary expected");
            }
            let trailer = p.dict(0)?;
            Ok(Section { offset: off, entries, trailer, stream_id: None, span: (off, p.i) })
        } else {
            let ind = self.indirect_at(off, &|_, _| Err("cross-reference stream Length must be direct".into()))?;
            let MObj::Stream(d, body) = &ind.obj else { return Err(format!("startxref/Prev offset {} is neither 'xref' nor a stream", off)) };
            if dict_get(d, b"Type") != Some(&MObj::Name(b"XRef".to_vec())) {
                return Err("cross-reference stream without /Type /XRef".into());
            }
            let size = int_of(d, b"Size").ok_or("xref stream without Size")?;
            let w: Vec<i64> = match dict_get(d, b"W") {
                Some(MObj::Array(a)) if a.len() == 3 => a.iter().map(|x| if let MObj::Int(i) = x { *i } else { -1 }).collect(),
                _ => return Err("xref stream: W must be an array of three integers".into()),
            };
            if w.iter().any(|&x| !(0..=8).contains(&x)) {
                return Err(format!("xref stream: bad W {:?}", w));
            }
            let index: Vec<i64> = match dict_get(d, b"Index") {
                None => vec![0, size],
                Some(MObj::Array(a)) if a.len() % 2 == 0 => a.iter().map(|x| if let MObj::Int(i) = x { *i } else { -1 }).collect(),
                _ => return Err("xref stream: bad Index".into()),
            };
            if index.iter().any(|&x| x < 0) {
                return Err("xref stream: negative Index value".into());
            }
            let data = decode_structural(d, body)?;
            let rowlen = (w[0] + w[1] + w[2]) as usize;
            let total: i64 = index.chunks(2).map(|c| c[1]).sum();
            if rowlen == 0 || data.len() != rowlen * total as usize {
                return Err(format!(
                    "xref stream: W {:?}, Index {:?} and decoded Length {} are not mutually consistent (expected {} bytes)",
                    w,
                    index,
                    data.len(),
                    rowlen * total as usize
                ));
            }
            let mut entries = BTreeMap::new();
            let mut pos = 0;
            let rd = |pos: &mut usize, n: i64| -> u64 {
                let mut v = 0u64;
                for _ in 0..n {
                    v = v << 8 | data[*pos] as u64;
                    *pos += 1;
                }
                v
            };
            for c in index.chunks(2) {
                for k in 0..c[1] {
                    let t = if w[0] == 0 { 1 } else { rd(&mut pos, w[0]) };
                    let f2 = rd(&mut pos, w[1]);
                    let f3 = rd(&mut pos, w[2]);
                    let num = (c[0] + k) as u32;
                    if entries.contains_key(&num) {
                        return Err(format!("object {} appears twice in one cross-reference stream", num));
                    }
                    match t {
                        0 => {
                            entries.insert(num, Entry::Free);
                        }
                        1 => {
                            entries.insert(num, Entry::InUse { offset: f2 as usize, gen: f3 as u16 });
                        }
                        2 => {
                            entries.insert(num, Entry::Compressed { container: f2 as u32, index: f3 as u32 });
                        }
                        other => return Err(format!("xref stream: unknown entry type {other}")),
                    }
                }
            }
            match entries.get(&ind.id.0) {
                Some(Entry::InUse { offset, gen }) if *offset == off && *gen == ind.id.1 => {}
                other => {
                    return Err(format!(
                        "xref stream object {} {} at {}: its own entry is {:?}",
                        ind.id.0, ind.id.1, off, other
                    ))
                }
            }
            Ok(Section { offset: off, entries, trailer: d.clone(), stream_id: Some(ind.id.0), span: (off, ind.end) })
        }
    }
}

/// Read `img` strictly. See the module documentation for what is demanded.
pub fn read_strict(img: &[u8], opts: &StrictOpts) -> R<StrictDoc> {
    // Bytes before the header: offsets are counted from the header (Adobe implementation note 13/15)
    let img = if opts.allow_leading_junk {
        &img[img.windows(5).position(|w| w == b"%PDF-").ok_or("no %PDF- header")?..]
    } else {
        img
    };
    let mut rd = Reader { img, covered: Vec::new() };
    // ---- header
    let hstart = if opts.allow_leading_junk {
        0
    } else {
        if !img.starts_with(b"%PDF-") {
            return Err("file does not start with %PDF-".into());
        }
        0
    };
    rd.cover(0, hstart);
    let mut p = P::new(img, hstart + 5);
    let vs = p.i;
    while p.peek().map_or(false, |c| c != b'\n' && c != b'\r') {
        p.i += 1;
    }
    let version = String::from_utf8(img[vs..p.i].to_vec()).map_err(|_| "version is not UTF-8".to_string())?;
    if !p.eol() {
        return Err("header line not terminated".into());
    }
    let mut binary_mark = Vec::new();
    let mut has_binary_comment = false;
    if p.peek() == Some(b'%') {
        let s = p.i + 1;
        let mut q = s;
        while img.get(q).map_or(false, |&c| c != b'\n' && c != b'\r') {
            q += 1;
        }
        if img[s..q].iter().all(|&c| c >= 128) {
            binary_mark = img[s..q].to_vec();
            has_binary_comment = true;
        }
    }
    // ---- tail: startxref EOL digits EOL %%EOF [ws]
    let eof = (0..img.len().saturating_sub(4)).rev().find(|&i| &img[i..i + 5] == b"%%EOF").ok_or("no %%EOF marker")?;
    if !img[eof + 5..].iter().all(|&c| is_ws(c)) {
        return Err("bytes other than white-space after the final %%EOF".into());
    }
    let sx = (0..eof.saturating_sub(8)).rev().find(|&i| &img[i..i + 9] == b"startxref").ok_or("no startxref keyword")?;
    let mut p = P::new(img, sx + 9);
    if !p.eol() {
        return p.err("startxref not followed by end-of-line");
    }
    while p.peek() == Some(b' ') {
        p.i += 1;
    }
    let xref_off = p.uint()? as usize;
    while p.peek() == Some(b' ') {
        p.i += 1;
    }
    if !p.eol() {
        return p.err("startxref value not followed by end-of-line");
    }
    if p.i != eof {
        return Err(format!("unexpected bytes between the startxref value and %%EOF at {}", p.i));
    }
    rd.cover(sx, img.len());

    // ---- sections, newest first
    let mut sections: Vec<Section> = Vec::new();
    let mut seen = BTreeSet::new();
    let mut next = Some(xref_off);
    while let Some(off) = next {
        if !seen.insert(off) {
            return Err(format!("Prev chain revisits offset {off}"));
        }
        let s = rd.section_at(off).map_err(|e| format!("cross-reference section at {off}: {e}"))?;
        next = match dict_get(&s.trailer, b"Prev") {
            None => None,
            Some(MObj::Int(i)) if *i >= 0 && (*i as usize) < off => Some(*i as usize),
            Some(other) => return Err(format!("bad Prev value {}", show(other))),
        };
        if dict_get(&s.trailer, b"XRefStm").is_some() {
            return Err("hybrid-reference file (XRefStm) is outside the strict reader's domain".into());
        }
        sections.push(s);
    }
    // object 0 must be in the oldest section and free
    match sections.last().unwrap().entries.get(&0) {
        Some(Entry::Free) | None if sections.last().unwrap().stream_id.is_some() => {}
        Some(Entry::Free) => {}
        other => return Err(format!("object 0 of the first cross-reference section must be a free entry, found {:?}", other)),
    }

    // ---- merged view: newest wins
    let mut merged: BTreeMap<u32, Entry> = BTreeMap::new();
    for s in &sections {
        for (n, e) in &s.entries {
            merged.entry(*n).or_insert_with(|| e.clone());
        }
    }
    let newest_size = int_of(&sections[0].trailer, b"Size").ok_or("trailer without integer Size")?;
    if let Some((&max_n, _)) = merged.iter().next_back() {
        if newest_size <= max_n as i64 {
            return Err(format!("Size {} does not exceed the highest object number {}", newest_size, max_n));
        }
    }

    // resolver for indirect Length (through the merged view)
    let merged_for_len = merged.clone();
    let img_ref = img;
    let resolve_len = move |n: u32, g: u16| -> R<i64> {
        match merged_for_len.get(&n) {
            Some(Entry::InUse { offset, gen }) if *gen == g => {
                let r = Reader { img: img_ref, covered: Vec::new() };
                match r.indirect_at(*offset, &|_, _| Err("nested indirect Length".into()))?.obj {
                    MObj::Int(i) => Ok(i),
                    o => Err(format!("indirect Length {} {} R is {}", n, g, show(&o))),
                }
            }
            Some(Entry::Compressed { container, index }) => {
                let r = Reader { img: img_ref, covered: Vec::new() };
                let c = match merged_for_len.get(container) {
                    // the container's own Length may be an indirect plain integer (one more level, no further)
                    Some(Entry::InUse { offset, .. }) => r.indirect_at(*offset, &|cn, cg| match merged_for_len.get(&cn) {
                        Some(Entry::InUse { offset, gen }) if *gen == cg => {
                            let r2 = Reader { img: img_ref, covered: Vec::new() };
                            match r2.indirect_at(*offset, &|_, _| Err("nested indirect Length".into()))?.obj {
                                MObj::Int(i) => Ok(i),
                                o => Err(format!("indirect Length {} {} R of an object stream is {}", cn, cg, show(&o))),
                            }
                        }
                        _ => Err(format!("indirect Length {} {} R of an object stream is not a plain in-use object", cn, cg)),
                    })?,
                    _ => return Err(format!("container {} of compressed Length object is not in use", container)),
                };
                let members = objstm_members(&c.obj)?;
                match members.get(*index as usize) {
                    Some((num, MObj::Int(i))) if *num == n => Ok(*i),
                    _ => Err(format!("indirect Length {} {} R not found in object stream {}", n, g, container)),
                }
            }
            _ => Err(format!("indirect Length {} {} R has no in-use entry", n, g)),
        }
    };

    // ---- every in-use entry of every section must point exactly at its object
    let mut parsed: BTreeMap<usize, Indirect> = BTreeMap::new();
    for s in &sections {
        rd.cover(s.span.0, s.span.1);
        for (n, e) in &s.entries {
            if let Entry::InUse { offset, gen } = e {
                if Some(*n) == s.stream_id {
                    continue;
                }
                // superseded objects inside the trusted prefix were validated when that image was
                // accepted (their indirect Lengths resolve in *their* revision's view, not the newest)
                if *offset < opts.trusted_prefix && merged.get(n) != Some(e) {
                    continue;
                }
                if !parsed.contains_key(offset) {
                    let ind = rd.indirect_at(*offset, &resolve_len).map_err(|e| format!("entry for object {} {}: {}", n, gen, e))?;
                    parsed.insert(*offset, ind);
                }
                let ind = &parsed[offset];
                if ind.id != (*n, *gen) {
                    return Err(format!(
                        "cross-reference entry for object {} {} points at offset {} where the file has '{} {} obj'",
                        n, gen, offset, ind.id.0, ind.id.1
                    ));
                }
            }
        }
    }
    for (off, ind) in &parsed {
        rd.cover(*off, ind.end);
    }

    // ---- assemble the newest view
    let mut doc = MDoc::empty();
    doc.version = version;
    doc.binary_mark = binary_mark;
    doc.xref_stream = sections[0].stream_id.is_some();
    doc.trailer = sections[0].trailer.clone();
    let mut xref_stream_ids: Vec<u32> = sections.iter().filter_map(|s| s.stream_id).collect();
    xref_stream_ids.sort();
    let mut objstm_ids = BTreeSet::new();
    let mut objstm_cache: BTreeMap<u32, Vec<(u32, MObj)>> = BTreeMap::new();
    for (n, e) in &merged {
        match e {
            Entry::Free => {}
            Entry::InUse { offset, gen } => {
                if xref_stream_ids.contains(n) && sections.iter().any(|s| s.stream_id == Some(*n) && s.offset == *offset) {
                    continue;
                }
                let ind = &parsed[offset];
                doc.objects.insert((*n, *gen), ind.obj.clone());
            }
            Entry::Compressed { container, index } => {
                if !objstm_cache.contains_key(container) {
                    let c = match merged.get(container) {
                        Some(Entry::InUse { offset, .. }) => &parsed[offset],
                        other => return Err(format!("object {} lives in container {} whose entry is {:?}", n, container, other)),
                    };
                    if !is_objstm_obj(&c.obj) {
                        return Err(format!("container {} of object {} is not an /ObjStm stream", container, n));
                    }
                    objstm_cache.insert(*container, objstm_members(&c.obj)?);
                    objstm_ids.insert(*container);
                }
                match objstm_cache[container].get(*index as usize) {
                    Some((num, o)) if num == n => {
                        doc.objects.insert((*n, 0), o.clone());
                    }
                    other => {
                        return Err(format!(
                            "object {}: index {} of object stream {} holds {:?}",
                            n,
                            index,
                            container,
                            other.map(|x| x.0)
                        ))
                    }
                }
            }
        }
    }
    // object-stream containers are structural, whether or not the newest revision still uses them
    for (k, o) in doc.objects.iter() {
        if is_objstm_obj(o) {
            objstm_ids.insert(k.0);
        }
    }
    for c in &objstm_ids {
        doc.objects.retain(|k, _| k.0 != *c);
    }
    doc.max_id = (newest_size - 1).max(0) as u32;

    // ---- byte accounting
    let mut cov = rd.covered.clone();
    cov.push((0, opts.trusted_prefix.min(img.len())));
    cov.sort();
    let mut pos = 0usize;
    let check_gap = |s: usize, e: usize| -> R<()> {
        let mut p = P::new(&img[..e], s);
        p.skip_ws();
        if p.i < e {
            // the "startxref"/"%%EOF" of earlier revisions and header lines are comments or covered
            return Err(format!(
                "bytes {}..{} belong to no object, cross-reference section, trailer or comment: {:?}",
                p.i,
                e,
                String::from_utf8_lossy(&img[p.i..e.min(p.i + 24)])
            ));
        }
        Ok(())
    };
    for (s, e) in cov {
        if s > pos {
            check_gap_with_tails(img, pos, s, &check_gap)?;
        }
        pos = pos.max(e);
    }
    if pos < img.len() {
        check_gap_with_tails(img, pos, img.len(), &check_gap)?;
    }
    if !has_binary_comment && !opts.allow_leading_junk && !opts.binary_comment_optional {
        return Err("no binary comment line after the header".into());
    }

    let newest_section_ids = sections[0].entries.iter().filter(|(_, e)| !matches!(e, Entry::Free)).map(|(n, _)| *n).collect();
    Ok(StrictDoc {
        doc,
        xref_stream_ids,
        objstm_ids: objstm_ids.into_iter().collect(),
        section_offsets: sections.iter().map(|s| s.offset).collect(),
        trailers: sections.iter().map(|s| s.trailer.clone()).collect(),
        newest_section_ids,
    })
}

/// Gaps between covered spans may contain, besides white-space and comments,
/// the `startxref <n> %%EOF` tails of earlier revisions.
fn check_gap_with_tails(img: &[u8], s: usize, e: usize, check: &dyn Fn(usize, usize) -> R<()>) -> R<()> {
    let mut s = s;
    loop {
        let mut p = P::new(&img[..e], s);
        p.skip_ws();
        if p.i >= e {
            return Ok(());
        }
        if p.starts(b"startxref") {
            p.i += 9;
            p.skip_ws();
            p.uint()?;
            p.skip_ws();
            // %%EOF is a comment for skip_ws; nothing more to do
            s = p.i;
            continue;
        }
        return check(p.i, e);
    }
}

fn objstm_members(container: &MObj) -> R<Vec<(u32, MObj)>> {
    let MObj::Stream(d, body) = container else { return Err("object stream container is not a stream".into()) };
    let n = int_of(d, b"N").ok_or("ObjStm without N")?;
    let first = int_of(d, b"First").ok_or("ObjStm without First")?;
    let data = decode_structural(d, body)?;
    if n < 0 || first < 0 || first as usize > data.len() {
        return Err("ObjStm: bad N/First".into());
    }
    let mut p = P::new(&data[..first as usize], 0);
    let mut idx = Vec::new();
    for _ in 0..n {
        p.skip_ws();
        let num = p.uint()?;
        p.skip_ws();
        let off = p.uint()?;
        idx.push((num as u32, off as usize));
    }
    p.skip_ws();
    if p.i != first as usize {
        return Err("ObjStm: junk in the index block".into());
    }
    let mut out = Vec::new();
    for (num, off) in idx {
        let mut q = P::new(&data, first as usize + off);
        let o = q.object(0).map_err(|e| format!("ObjStm member {}: {}", num, e))?;
        out.push((num, o));
    }
    Ok(out)
}
