//! Well-formed page-tree documents for the editing-program world (C11), an
//! independent reading of the page structures (page order, content tokens,
//! usable resources, reachability) and a small content-operation codec.

use crate::gen::{gen_bytes, Alphabet};
use crate::model::*;
use crate::strict::P;
use simcore::{Ctx, Stream::W};
use std::collections::{BTreeMap, BTreeSet};

pub type Id = (u32, u16);

#[derive(Clone, Debug, PartialEq)]
pub struct MOp {
    pub operator: String,
    pub operands: Vec<MObj>,
}

fn name(s: &str) -> MObj {
    MObj::Name(s.as_bytes().to_vec())
}
fn nm(s: &str) -> Vec<u8> {
    s.as_bytes().to_vec()
}

pub fn gen_ops(ctx: &Ctx, max: usize) -> Vec<MOp> {
    let n = 1 + ctx.draw(W, max as u64, "ops-n") as usize;
    let mut v = Vec::new();
    let num = |ctx: &Ctx| -> MObj {
        if ctx.chance(W, 1, 3, "op-real") {
            MObj::Real((ctx.draw(W, 2000, "op-num") as f32 - 1000.0) / 4.0 + 0.125)
        } else {
            MObj::Int(ctx.draw(W, 800, "op-num") as i64 - 100)
        }
    };
    for _ in 0..n {
        let op = match ctx.draw(W, 9, "op-kind") {
            0 => MOp { operator: "q".into(), operands: vec![] },
            1 => MOp { operator: "Q".into(), operands: vec![] },
            2 => MOp { operator: "BT".into(), operands: vec![] },
            3 => MOp { operator: "ET".into(), operands: vec![] },
            4 => MOp { operator: "Tf".into(), operands: vec![name("F1"), num(ctx)] },
            5 => MOp { operator: "Td".into(), operands: vec![num(ctx), num(ctx)] },
            6 => MOp { operator: "Tj".into(), operands: vec![MObj::Str(gen_bytes(ctx, Alphabet::Ascii, 12), ctx.chance(W, 1, 4, "op-hex"))] },
            7 => MOp { operator: "cm".into(), operands: (0..6).map(|_| num(ctx)).collect() },
            _ => MOp {
                operator: "TJ".into(),
                operands: vec![MObj::Array(vec![MObj::Str(gen_bytes(ctx, Alphabet::Ascii, 6), false), num(ctx), MObj::Str(gen_bytes(ctx, Alphabet::Ascii, 6), false)])],
            },
        };
        v.push(op);
    }
    v
}

fn enc_obj(o: &MObj, out: &mut Vec<u8>) {
    match o {
        MObj::Int(i) => out.extend_from_slice(i.to_string().as_bytes()),
        MObj::Real(r) => {
            let s = format!("{}", r);
            out.extend_from_slice(s.as_bytes());
            if !s.contains('.') {
                out.extend_from_slice(b".0");
            }
        }
        MObj::Name(n) => {
            out.push(b'/');
            out.extend_from_slice(n);
        }
        MObj::Str(s, false) => {
            out.push(b'(');
            out.extend_from_slice(s);
            out.push(b')');
        }
        MObj::Str(s, true) => {
            out.push(b'<');
            for b in s {
                out.extend_from_slice(format!("{:02x}", b).as_bytes());
            }
            out.push(b'>');
        }
        MObj::Array(a) => {
            out.push(b'[');
            for (i, x) in a.iter().enumerate() {
                if i > 0 {
                    out.push(b' ');
                }
                enc_obj(x, out);
            }
            out.push(b']');
        }
        _ => out.extend_from_slice(b"null"),
    }
}

/// Encode operations. `tail`: 0 nothing after the last operator, 1 LF, 2 space.
pub fn encode_ops(ops: &[MOp], sep: u8, tail: u8) -> Vec<u8> {
    let mut out = Vec::new();
    for (i, op) in ops.iter().enumerate() {
        if i > 0 {
            out.push(if sep == 0 { b'\n' } else { b' ' });
        }
        for o in &op.operands {
            enc_obj(o, &mut out);
            out.push(b' ');
        }
        out.extend_from_slice(op.operator.as_bytes());
    }
    match tail {
        1 => out.push(b'\n'),
        2 => out.push(b' '),
        _ => {}
    }
    out
}

/// Independent content tokenizer: operands are direct objects, an operator is a
/// run of regular characters that starts with a letter, `'` or `"`.
pub fn tokenize_content(data: &[u8]) -> Result<Vec<MOp>, String> {
    let mut p = P::new(data, 0);
    let mut ops = Vec::new();
    let mut operands = Vec::new();
    loop {
        p.skip_ws();
        let Some(&c) = data.get(p.i) else { break };
        if c.is_ascii_alphabetic() || c == b'\'' || c == b'"' {
            let s = p.i;
            while data.get(p.i).map_or(false, |&c| !b" \t\r\n\x0c\0()<>[]{}/%".contains(&c)) {
                p.i += 1;
            }
            let word = String::from_utf8_lossy(&data[s..p.i]).to_string();
            match word.as_str() {
                "true" => operands.push(MObj::Bool(true)),
                "false" => operands.push(MObj::Bool(false)),
                "null" => operands.push(MObj::Null),
                _ => ops.push(MOp { operator: word, operands: std::mem::take(&mut operands) }),
            }
        } else {
            operands.push(p.object(0)?);
        }
    }
    if !operands.is_empty() {
        return Err("operands without operator at the end of the content".into());
    }
    Ok(ops)
}

pub fn same_ops(exp: &[MOp], got: &[MOp]) -> Result<(), String> {
    let show_ops = |v: &[MOp]| v.iter().map(|o| o.operator.clone()).collect::<Vec<_>>().join(" ");
    if exp.len() != got.len() {
        return Err(format!("operators expected [{}] got [{}]", show_ops(exp), show_ops(got)));
    }
    for (i, (a, b)) in exp.iter().zip(got).enumerate() {
        if a.operator != b.operator || a.operands.len() != b.operands.len() {
            return Err(format!("operation {i}: expected {} ({} operands) got {} ({} operands); all: [{}] vs [{}]", a.operator, a.operands.len(), b.operator, b.operands.len(), show_ops(exp), show_ops(got)));
        }
        for (x, y) in a.operands.iter().zip(&b.operands) {
            same_obj(x, y, &mut format!("operation {i} {}", a.operator))?;
        }
    }
    Ok(())
}

// ---------------------------------------------------------------- independent reading of a document

pub fn resolve<'a>(doc: &'a MDoc, mut o: &'a MObj) -> Option<&'a MObj> {
    for _ in 0..32 {
        match o {
            MObj::Ref(n, g) => o = doc.objects.get(&(*n, *g))?,
            _ => return Some(o),
        }
    }
    None
}

pub fn dict_of(o: &MObj) -> Option<&MDict> {
    match o {
        MObj::Dict(d) | MObj::Stream(d, _) => Some(d),
        _ => None,
    }
}

/// Objects reachable from the trailer (references whose target exists).
pub fn reachable(doc: &MDoc) -> BTreeSet<Id> {
    fn walk(o: &MObj, out: &mut Vec<Id>) {
        match o {
            MObj::Ref(n, g) => out.push((*n, *g)),
            MObj::Array(a) => a.iter().for_each(|x| walk(x, out)),
            MObj::Dict(d) | MObj::Stream(d, _) => d.iter().for_each(|(_, v)| walk(v, out)),
            _ => {}
        }
    }
    let mut seen = BTreeSet::new();
    let mut todo = Vec::new();
    doc.trailer.iter().for_each(|(_, v)| walk(v, &mut todo));
    while let Some(id) = todo.pop() {
        if let Some(o) = doc.objects.get(&id) {
            if seen.insert(id) {
                walk(o, &mut todo);
            }
        }
    }
    seen
}

/// Does `o` contain a reference to `x` anywhere?
pub fn mentions(o: &MObj, x: Id) -> bool {
    match o {
        MObj::Ref(n, g) => (*n, *g) == x,
        MObj::Array(a) => a.iter().any(|y| mentions(y, x)),
        MObj::Dict(d) | MObj::Stream(d, _) => d.iter().any(|(_, v)| mentions(v, x)),
        _ => false,
    }
}

/// `o` with every array element / dictionary entry equal to a reference in `xs` removed.
pub fn strip_refs(o: &MObj, xs: &[Id]) -> MObj {
    let is = |y: &MObj| matches!(y, MObj::Ref(n, g) if xs.contains(&(*n, *g)));
    let sd = |d: &MDict| -> MDict { d.iter().filter(|(_, v)| !is(v)).map(|(k, v)| (k.clone(), strip_refs(v, xs))).collect() };
    match o {
        MObj::Array(a) => MObj::Array(a.iter().filter(|y| !is(y)).map(|y| strip_refs(y, xs)).collect()),
        MObj::Dict(d) => MObj::Dict(sd(d)),
        MObj::Stream(d, b) => MObj::Stream(sd(d), b.clone()),
        other => other.clone(),
    }
}

fn type_is(o: &MObj, t: &[u8]) -> bool {
    dict_of(o).and_then(|d| dict_get(d, b"Type")).map_or(false, |v| *v == MObj::Name(t.to_vec()))
}

/// Leaf pages in depth-first, left-to-right order (own reading of the tree).
pub fn pages(doc: &MDoc) -> Vec<Id> {
    fn rec(doc: &MDoc, node: Id, depth: usize, seen: &mut BTreeSet<Id>, out: &mut Vec<Id>) {
        if depth > 64 || !seen.insert(node) {
            return;
        }
        let Some(o) = doc.objects.get(&node) else { return };
        if type_is(o, b"Page") {
            out.push(node);
        } else if type_is(o, b"Pages") {
            if let Some(MObj::Array(kids)) = dict_of(o).and_then(|d| dict_get(d, b"Kids")).and_then(|k| resolve(doc, k)) {
                for k in kids {
                    if let MObj::Ref(n, g) = k {
                        rec(doc, (*n, *g), depth + 1, seen, out);
                    }
                }
            }
        }
    }
    let mut out = Vec::new();
    let root = dict_get(&doc.trailer, b"Root").and_then(|r| resolve(doc, r));
    if let Some(MObj::Ref(n, g)) = root.and_then(dict_of).and_then(|d| dict_get(d, b"Pages")) {
        rec(doc, (*n, *g), 0, &mut BTreeSet::new(), &mut out);
    }
    out
}

pub fn pages_nodes(doc: &MDoc) -> Vec<Id> {
    doc.objects.iter().filter(|(_, o)| type_is(o, b"Pages")).map(|(k, _)| *k).collect()
}

/// Number of leaf pages below a `Pages` node.
pub fn leaf_count(doc: &MDoc, node: Id) -> usize {
    fn rec(doc: &MDoc, node: Id, depth: usize) -> usize {
        if depth > 64 {
            return 0;
        }
        let Some(o) = doc.objects.get(&node) else { return 0 };
        if type_is(o, b"Page") {
            return 1;
        }
        let mut n = 0;
        if let Some(MObj::Array(kids)) = dict_of(o).and_then(|d| dict_get(d, b"Kids")).and_then(|k| resolve(doc, k)) {
            for k in kids {
                if let MObj::Ref(a, b) = k {
                    n += rec(doc, (*a, *b), depth + 1);
                }
            }
        }
        n
    }
    rec(doc, node, 0)
}

pub fn stream_plain(o: &MObj) -> Result<Vec<u8>, String> {
    let MObj::Stream(d, body) = o else { return Err("not a stream".into()) };
    // the independent decoder of the strict reader: Flate / LZW / ASCII85 chains, PNG predictors,
    // DecodeParms as a dictionary or as an array
    crate::strict::decode_structural(d, body)
}

/// Content-stream ids of a page (ISO 32000-1 7.7.3.3: a stream, or an array of
/// streams; either may be given through a reference).
pub fn content_stream_ids(doc: &MDoc, page: Id) -> Result<Vec<Id>, String> {
    let Some(pd) = doc.objects.get(&page).and_then(dict_of) else { return Err("page is not a dictionary".into()) };
    let Some(c) = dict_get(pd, b"Contents") else { return Ok(vec![]) };
    let mut out = Vec::new();
    let as_stream_ref = |o: &MObj| -> Option<Id> {
        if let MObj::Ref(n, g) = o {
            if matches!(doc.objects.get(&(*n, *g)), Some(MObj::Stream(..))) {
                return Some((*n, *g));
            }
        }
        None
    };
    if let Some(id) = as_stream_ref(c) {
        out.push(id);
        return Ok(out);
    }
    match resolve(doc, c) {
        Some(MObj::Array(a)) => {
            for e in a {
                match as_stream_ref(e) {
                    Some(id) => out.push(id),
                    None => return Err(format!("Contents array element {} is not a reference to a stream", show(e))),
                }
            }
            Ok(out)
        }
        other => Err(format!("Contents is {:?}", other.map(show))),
    }
}

/// The page's content as operations: every stream tokenized on its own (the
/// division between streams is a token boundary), then concatenated.
pub fn page_ops(doc: &MDoc, page: Id) -> Result<Vec<MOp>, String> {
    let mut ops = Vec::new();
    for id in content_stream_ids(doc, page)? {
        let plain = stream_plain(&doc.objects[&id])?;
        ops.extend(tokenize_content(&plain).map_err(|e| format!("stream {} {}: {e}", id.0, id.1))?);
    }
    Ok(ops)
}

/// Resource names a page can use: its own `Resources` if present, else the
/// nearest ancestor's. Returns (category, name) -> value.
pub fn usable_resources(doc: &MDoc, page: Id) -> BTreeMap<(Vec<u8>, Vec<u8>), MObj> {
    let mut node = Some(page);
    let mut out = BTreeMap::new();
    for _ in 0..64 {
        let Some(n) = node else { break };
        let Some(d) = doc.objects.get(&n).and_then(dict_of) else { break };
        if let Some(r) = dict_get(d, b"Resources") {
            if let Some(MObj::Dict(res)) = resolve(doc, r) {
                for (cat, v) in res {
                    if let Some(MObj::Dict(names)) = resolve(doc, v) {
                        for (nm, val) in names {
                            out.insert((cat.clone(), nm.clone()), val.clone());
                        }
                    }
                }
            }
            break;
        }
        node = match dict_get(d, b"Parent") {
            Some(MObj::Ref(a, b)) => Some((*a, *b)),
            _ => None,
        };
    }
    out
}

// ---------------------------------------------------------------- generator

pub struct PageDoc {
    pub doc: MDoc,
    pub pages: Vec<Id>,
    pub annotations: Vec<Id>,
    pub expected_ops: BTreeMap<Id, Vec<MOp>>,
}

pub fn gen_page_doc(ctx: &Ctx) -> PageDoc {
    let mut doc = MDoc::empty();
    doc.xref_stream = ctx.chance(W, 1, 2, "xref-stream");
    let mut next: u32 = 0;
    let gapped = ctx.chance(W, 1, 3, "gapped-ids");
    let mut alloc = |ctx: &Ctx| -> Id {
        next += 1 + if gapped { ctx.draw(W, 3, "gap") as u32 } else { 0 };
        (next, 0)
    };
    let r = |id: Id| MObj::Ref(id.0, id.1);
    let catalog = alloc(ctx);
    let root_pages = alloc(ctx);
    let font = alloc(ctx);
    doc.objects.insert(font, MObj::Dict(vec![(nm("Type"), name("Font")), (nm("Subtype"), name("Type1")), (nm("BaseFont"), name("Courier"))]));
    let font2 = alloc(ctx);
    doc.objects.insert(font2, MObj::Dict(vec![(nm("Type"), name("Font")), (nm("Subtype"), name("Type1")), (nm("BaseFont"), name("Helvetica"))]));
    // shared sub-dictionaries that resource dictionaries may refer to indirectly
    let gs_obj = alloc(ctx);
    doc.objects.insert(gs_obj, MObj::Dict(vec![(nm("Type"), name("ExtGState")), (nm("LW"), MObj::Int(2))]));
    let gs_dict_obj = alloc(ctx);
    doc.objects.insert(gs_dict_obj, MObj::Dict(vec![(nm("GS0"), r(gs_obj))]));
    let xo_dict_obj = alloc(ctx);
    doc.objects.insert(xo_dict_obj, MObj::Dict(vec![(nm("X0"), r(gs_obj))]));
    let res_dict = |ctx: &Ctx| -> MDict {
        let mut fonts = vec![(nm("F1"), r(font))];
        if ctx.chance(W, 1, 2, "res-f2") {
            fonts.push((nm("F2"), r(font2)));
        }
        let mut d = vec![(nm("Font"), MObj::Dict(fonts))];
        if ctx.chance(W, 1, 3, "res-procset") {
            d.push((nm("ProcSet"), MObj::Array(vec![name("PDF"), name("Text")])));
        }
        match ctx.draw(W, 4, "res-extgstate") {
            0 | 1 => {}
            2 => d.push((nm("ExtGState"), MObj::Dict(vec![(nm("GS0"), r(gs_obj))]))),
            _ => d.push((nm("ExtGState"), r(gs_dict_obj))),
        }
        match ctx.draw(W, 4, "res-xobject") {
            0 | 1 => {}
            2 => d.push((nm("XObject"), MObj::Dict(vec![(nm("X0"), r(gs_obj))]))),
            _ => d.push((nm("XObject"), r(xo_dict_obj))),
        }
        d
    };
    // page tree
    let n_pages = 1 + ctx.draw(W, 7, "n-pages") as usize;
    let mut pages: Vec<Id> = Vec::new();
    let mut annotations: Vec<Id> = Vec::new();
    let mut expected_ops = BTreeMap::new();
    // intermediate nodes: (id, parent, kids)
    struct Node {
        id: Id,
        parent: Option<Id>,
        kids: Vec<Id>,
        resources: Option<MObj>,
    }
    let mut nodes: Vec<Node> = vec![Node { id: root_pages, parent: None, kids: vec![], resources: None }];
    let n_inner = ctx.draw(W, 4, "n-inner") as usize;
    for _ in 0..n_inner {
        let parent_idx = ctx.draw(W, nodes.len() as u64, "inner-parent") as usize;
        let id = alloc(ctx);
        let pid = nodes[parent_idx].id;
        nodes[parent_idx].kids.push(id);
        nodes.push(Node { id, parent: Some(pid), kids: vec![], resources: None });
    }
    // resources on some tree nodes (inherited by pages)
    for i in 0..nodes.len() {
        if ctx.chance(W, if i == 0 { 2 } else { 1 }, 3, "node-resources") {
            let d = res_dict(ctx);
            nodes[i].resources = Some(if ctx.chance(W, 1, 2, "node-res-indirect") {
                let id = alloc(ctx);
                doc.objects.insert(id, MObj::Dict(d));
                r(id)
            } else {
                MObj::Dict(d)
            });
        }
    }
    for _ in 0..n_pages {
        let parent_idx = ctx.draw(W, nodes.len() as u64, "page-parent") as usize;
        let id = alloc(ctx);
        let pid = nodes[parent_idx].id;
        nodes[parent_idx].kids.push(id);
        pages.push(id);
        let mut pd: MDict = vec![(nm("Type"), name("Page")), (nm("Parent"), r(pid))];
        // contents
        let form = ctx.draw(W, 20, "contents-form");
        let mk_stream = |ctx: &Ctx, doc: &mut MDoc, id: Id, ops: &[MOp]| {
            let body = encode_ops(ops, ctx.draw(W, 2, "ops-sep") as u8, ctx.draw(W, 3, "ops-tail") as u8);
            let mut d: MDict = Vec::new();
            let body = if ctx.chance(W, 1, 4, "content-flate") {
                use std::io::Write;
                let mut body = body;
                // a third of them with a PNG predictor (legal for any Flate stream): the content is
                // padded with white-space to whole rows, which changes no operation
                if ctx.chance(W, 1, 3, "content-predictor") {
                    ctx.count("content-stream-with-predictor");
                    let cols = 1 + ctx.draw(W, 12, "content-columns") as usize;
                    while body.len() % cols != 0 {
                        body.push(b' ');
                    }
                    let ft = ctx.draw(W, 3, "content-row-filter") as u8; // None, Sub, Up
                    let mut out = Vec::with_capacity(body.len() + body.len() / cols + 1);
                    let zero = vec![0u8; cols];
                    let mut prev: &[u8] = &zero;
                    for row in body.chunks(cols) {
                        out.push(ft);
                        for i in 0..row.len() {
                            let pred = match ft {
                                0 => 0,
                                1 => if i > 0 { row[i - 1] } else { 0 },
                                _ => prev[i],
                            };
                            out.push(row[i].wrapping_sub(pred));
                        }
                        prev = row;
                    }
                    body = out;
                    d.push((
                        nm("DecodeParms"),
                        MObj::Dict(vec![(nm("Predictor"), MObj::Int(10 + ft as i64)), (nm("Columns"), MObj::Int(cols as i64))]),
                    ));
                }
                let mut e = flate2::write::ZlibEncoder::new(Vec::new(), flate2::Compression::default());
                e.write_all(&body).unwrap();
                d.push((nm("Filter"), name("FlateDecode")));
                e.finish().unwrap()
            } else {
                body
            };
            d.push((nm("Length"), MObj::Int(body.len() as i64)));
            doc.objects.insert(id, MObj::Stream(d, body));
        };
        let mut ops_all = Vec::new();
        match form {
            0 => {}
            1..=11 => {
                let sid = alloc(ctx);
                let ops = gen_ops(ctx, 6);
                mk_stream(ctx, &mut doc, sid, &ops);
                ops_all.extend(ops);
                pd.push((nm("Contents"), r(sid)));
            }
            12..=16 => {
                let k = 1 + ctx.draw(W, 3, "contents-n") as usize;
                let mut arr = Vec::new();
                for _ in 0..k {
                    let sid = alloc(ctx);
                    let ops = gen_ops(ctx, 4);
                    mk_stream(ctx, &mut doc, sid, &ops);
                    ops_all.extend(ops);
                    arr.push(r(sid));
                }
                pd.push((nm("Contents"), MObj::Array(arr)));
            }
            _ => {
                // reference to an array object
                let k = 1 + ctx.draw(W, 2, "contents-n") as usize;
                let mut arr = Vec::new();
                for _ in 0..k {
                    let sid = alloc(ctx);
                    let ops = gen_ops(ctx, 4);
                    mk_stream(ctx, &mut doc, sid, &ops);
                    ops_all.extend(ops);
                    arr.push(r(sid));
                }
                let aid = alloc(ctx);
                doc.objects.insert(aid, MObj::Array(arr));
                pd.push((nm("Contents"), r(aid)));
            }
        }
        expected_ops.insert(id, ops_all);
        // resources
        match ctx.draw(W, 4, "page-resources") {
            0 | 1 => {} // inherited (or none anywhere)
            2 => pd.push((nm("Resources"), MObj::Dict(res_dict(ctx)))),
            _ => {
                let rid = alloc(ctx);
                doc.objects.insert(rid, MObj::Dict(res_dict(ctx)));
                pd.push((nm("Resources"), r(rid)));
            }
        }
        // annotations
        if ctx.chance(W, 1, 2, "page-annots") {
            let k = ctx.draw(W, 4, "annots-n") as usize;
            let mut arr = Vec::new();
            for _ in 0..k {
                let aid = alloc(ctx);
                doc.objects.insert(
                    aid,
                    MObj::Dict(vec![
                        (nm("Type"), name("Annot")),
                        (nm("Subtype"), name("Text")),
                        (nm("Rect"), MObj::Array(vec![MObj::Int(0), MObj::Int(0), MObj::Int(10), MObj::Int(10)])),
                        (nm("P"), r(id)),
                    ]),
                );
                annotations.push(aid);
                arr.push(r(aid));
            }
            pd.push((nm("Annots"), MObj::Array(arr)));
        }
        pd.push((nm("MediaBox"), MObj::Array(vec![MObj::Int(0), MObj::Int(0), MObj::Int(595), MObj::Int(842)])));
        doc.objects.insert(id, MObj::Dict(pd));
    }
    // materialise the Pages nodes (counts computed bottom-up afterwards)
    for n in &nodes {
        let mut d: MDict = vec![(nm("Type"), name("Pages"))];
        if let Some(p) = n.parent {
            d.push((nm("Parent"), r(p)));
        }
        d.push((nm("Kids"), MObj::Array(n.kids.iter().map(|k| r(*k)).collect())));
        d.push((nm("Count"), MObj::Int(0)));
        if let Some(res) = &n.resources {
            d.push((nm("Resources"), res.clone()));
        }
        doc.objects.insert(n.id, MObj::Dict(d));
    }
    for n in &nodes {
        let c = leaf_count(&doc, n.id) as i64;
        if let Some(MObj::Dict(d)) = doc.objects.get_mut(&n.id) {
            dict_set(d, b"Count", MObj::Int(c));
        }
    }
    // DFS order of the pages as the tree defines it
    let mut cat: MDict = vec![(nm("Type"), name("Catalog")), (nm("Pages"), r(root_pages))];
    // an object referenced several times from one array, and directly from a stream dictionary
    let shared = alloc(ctx);
    doc.objects.insert(shared, MObj::Dict(vec![(nm("Producer"), MObj::Str(b"verif".to_vec(), false))]));
    if ctx.chance(W, 1, 2, "dup-refs") {
        let holder = alloc(ctx);
        doc.objects.insert(holder, MObj::Array(vec![r(shared), MObj::Int(1), r(shared), r(font)]));
        cat.push((nm("Extra"), r(holder)));
    }
    if ctx.chance(W, 1, 3, "stream-dict-ref") {
        let sid = alloc(ctx);
        doc.objects.insert(sid, MObj::Stream(vec![(nm("Related"), r(shared)), (nm("Length"), MObj::Int(3))], b"abc".to_vec()));
        cat.push((nm("Attachment"), r(sid)));
    }
    doc.objects.insert(catalog, MObj::Dict(cat));
    // unreachable objects
    for _ in 0..ctx.draw(W, 3, "unreachable") {
        let id = alloc(ctx);
        doc.objects.insert(id, MObj::Dict(vec![(nm("Orphan"), MObj::Bool(true)), (nm("Link"), r(font))]));
    }
    doc.trailer.push((nm("Root"), r(catalog)));
    if ctx.chance(W, 2, 3, "info") {
        doc.trailer.push((nm("Info"), r(shared)));
    }
    doc.max_id = next;
    let order = pages_in_order(&doc);
    debug_assert_eq!(order.len(), pages.len());
    PageDoc { doc, pages: order, annotations, expected_ops }
}

fn pages_in_order(doc: &MDoc) -> Vec<Id> {
    pages(doc)
}
