//! Independent reference PDF producer (see `REFWRITER_SPEC.md`).
//!
//! Emits a history of revisions as one syntactically valid PDF file, drawing every
//! choice ISO 32000-1 §7.2-7.5 leaves open from stream `W` (value 0 of every draw is
//! the plainest choice). Shares no code with lopdf.
//!
//! Conventions worth knowing:
//! * With `leading_junk`, all byte offsets written into the file (`startxref`, xref
//!   entries, `Prev`) are relative to the `%` of `%PDF-` (the only convention under
//!   which such a file is readable); `Layout` spans are absolute positions in `bytes`.
//! * `Layout::revision_ends[i]` includes the white-space that follows `%%EOF`.
//! * Probe counters (`ctx.count`) record how often each rarer freedom was used.

use crate::model::*;
use simcore::{Ctx, Stream};
use std::collections::{BTreeMap, BTreeSet};
use std::sync::atomic::{AtomicU32, Ordering};

const SW: Stream = Stream::W;

/// One revision of a file history. Revision 0 is the base document.
#[derive(Clone, Debug)]
pub struct Revision {
    /// objects defined (new or replacing older definitions) by this revision
    pub objects: BTreeMap<(u32, u16), MObj>,
    /// trailer entries of this revision WITHOUT cross-reference bookkeeping
    pub trailer: MDict,
}

#[derive(Clone, Copy, Debug, PartialEq, Eq)]
pub enum XrefStyle {
    Table,
    Stream,
}

#[derive(Clone, Debug)]
pub struct WriterOpts {
    pub version: String,
    pub binary_mark: Vec<u8>,
    pub styles: Vec<XrefStyle>,
    pub freedom: u8,
    pub object_streams: bool,
    pub leading_junk: bool,
    /// allow a raw CR / CRLF inside a literal string to denote an LF byte (freedom 2 only)
    pub raw_cr_eol: bool,
    /// DELIBERATELY INVALID output, used only where a property quantifies over all bytes (C08):
    /// for some objects that are re-defined inside a new object stream, the cross-reference entry
    /// keeps pointing at the old container, at a container that does not hold the object, or at a
    /// container that does not exist. `expect` is then meaningless for those objects.
    pub misdesignate: bool,
    /// object streams and cross-reference streams are always compressed with real zlib (used for
    /// the "inflates to hundreds of times the file size" workload class)
    pub force_structural_zlib: bool,
}

#[derive(Clone, Copy, Debug, PartialEq, Eq)]
pub enum FieldKind {
    Header,
    StartXrefValue,
    XrefOffsetEntry,
    TrailerKeyword,
    PrevValue,
    SizeValue,
    LengthValue,
    WArray,
    IndexArray,
    ObjStmN,
    ObjStmFirst,
    ObjHeader,
    StreamBody,
    XrefStreamBody,
    ObjStmBody,
    /// the digits of an integer object that serves as some stream's Length (plain object, or a
    /// member of an unfiltered object stream)
    LengthObject,
    Eof,
}

#[derive(Clone, Debug, Default)]
pub struct Layout {
    pub fields: Vec<(usize, usize, FieldKind)>,
    pub revision_ends: Vec<usize>,
    pub objstm_containers: Vec<Vec<u32>>,
    pub xref_stream_ids: Vec<Option<u32>>,
    pub compressed: BTreeMap<u32, (u32, u32)>,
    /// integer objects that hold the Length of an object-stream container (they are ordinary
    /// objects of the document, but replacing one by something else makes the file invalid)
    pub container_length_objs: BTreeSet<u32>,
    /// how many containers took their Length from an object another stream uses too
    pub container_length_shared: u32,
}

#[derive(Clone, Debug)]
pub struct Written {
    pub bytes: Vec<u8>,
    pub layout: Layout,
    pub expect: Vec<MDoc>,
    pub structural_ids: Vec<Vec<u32>>,
}

/// Diagnostic knob (bit mask, default 0): legal constructs the writer shall avoid, so that
/// a reader defect can be attributed. The draws stay the same; only the construct is replaced.
pub static AVOID: AtomicU32 = AtomicU32::new(0);
/// never use PNG filter type 3 (Average): predictor 13 becomes 12, Average rows become Up rows
pub const AVOID_PNG_AVERAGE: u32 = 1;
/// never store an object number in an object stream if an earlier revision did so already
pub const AVOID_DUP_IN_OBJSTM: u32 = 2;
/// never write a stream `Length` as an indirect reference
pub const AVOID_INDIRECT_LENGTH: u32 = 4;

fn is_ws(c: u8) -> bool {
    matches!(c, 0 | 9 | 10 | 12 | 13 | 32)
}
fn is_delim(c: u8) -> bool {
    b"()<>[]{}/%".contains(&c)
}
fn is_regular(c: u8) -> bool {
    !is_ws(c) && !is_delim(c)
}

/// Bytes a comment may contain: printable ASCII without the letters needed to spell
/// `%%EOF`, `startxref`, `%PDF-`, `endstream`, `endobj`, `stream`, `obj` (E s P e o),
/// plus TAB and two high bytes.
const COMMENT_ALPHABET: &[u8] =
    b" \t!\"#$%&'()*+,-./0123456789:;<=>?@[\\]^_`{|}~ABCGHIKLNQUVWYZcdghiklnpquvwyz\x80\xff";

/// Token emitter: owns the output buffer and all lexical choices.
struct Em<'a> {
    ctx: &'a Ctx,
    /// freedom 0..=2
    f: usize,
    raw_cr: bool,
    out: Vec<u8>,
    /// the last token ends "open": a following regular character needs white-space first
    open: bool,
    /// comments allowed in inter-token white-space
    cm: bool,
    /// start of the first token written since this was last set to `None`
    first_tok: Option<usize>,
    fields: Vec<(usize, usize, FieldKind)>,
    /// structural streams always compressed with real zlib (see `WriterOpts::force_structural_zlib`)
    force_zlib: bool,
}

impl<'a> Em<'a> {
    fn new(ctx: &'a Ctx, f: usize, raw_cr: bool) -> Em<'a> {
        Em { ctx, f, raw_cr, out: Vec::new(), open: false, cm: true, first_tok: None, fields: Vec::new(), force_zlib: false }
    }
    /// emitter for a separate buffer (object-stream member) with the same choices
    fn sub(&self) -> Em<'a> {
        let mut e = Em::new(self.ctx, self.f, self.raw_cr);
        e.force_zlib = self.force_zlib;
        e
    }
    /// true with per-mille probability `pm[freedom]`; never draws when that is 0
    fn p(&self, pm: [u64; 3], label: &'static str) -> bool {
        pm[self.f] > 0 && self.ctx.chance(SW, pm[self.f], 1000, label)
    }
    /// a choice in `[0, bound)`; always 0 (no draw) at freedom 0
    fn d(&self, bound: u64, label: &'static str) -> usize {
        if self.f == 0 || bound <= 1 {
            0
        } else {
            self.ctx.draw(SW, bound, label) as usize
        }
    }
    fn shuffle<T>(&self, v: &mut [T], label: &'static str) {
        // Fisher-Yates; an all-zero draw sequence is the identity
        for i in 0..v.len().saturating_sub(1) {
            let j = i + self.ctx.draw(SW, (v.len() - i) as u64, label) as usize;
            v.swap(i, j);
        }
    }
    fn put(&mut self, b: &[u8]) {
        self.out.extend_from_slice(b);
    }

    // ---------------------------------------------------------------- white-space

    /// line end of a structural line: LF, CRLF or CR
    fn eol(&mut self) {
        if !self.p([0, 250, 600], "eol-fancy") {
            return self.put(b"\n");
        }
        if self.d(2, "eol") == 0 {
            self.put(b"\r\n")
        } else {
            self.ctx.count("eol-cr-only");
            self.put(b"\r")
        }
    }
    fn ensure_eol(&mut self) {
        if !matches!(self.out.last(), Some(b'\r') | Some(b'\n')) {
            self.eol();
        }
    }
    fn comment(&mut self) {
        self.ctx.count("comment");
        self.put(b"%");
        for _ in 0..self.d(24, "comment-len") {
            let c = COMMENT_ALPHABET[self.ctx.draw(SW, COMMENT_ALPHABET.len() as u64, "comment-ch") as usize];
            self.out.push(c);
        }
        self.eol();
    }
    fn ws_mix(&mut self, set: &[u8]) {
        for _ in 0..2 + self.d(4, "ws-mix-n") {
            let c = set[self.ctx.draw(SW, set.len() as u64, "ws-mix") as usize];
            self.out.push(c);
        }
    }
    /// inter-token white-space; non-empty when `need`
    fn ws(&mut self, need: bool) {
        if !self.p([0, 200, 650], "ws-fancy") {
            if need {
                self.put(b" ");
            }
            return;
        }
        match self.d(if self.f >= 2 { 11 } else { 8 }, "ws") {
            0 => self.put(b" "),
            1 => self.put(b"\n"),
            2 => self.put(b"  "),
            3 => self.put(b"\t"),
            4 => self.put(b"\r\n"),
            5 => self.put(b"\r"),
            6 => self.ws_mix(b" \t\n\r"),
            7 => {
                if self.cm {
                    self.comment()
                } else {
                    self.put(b" ")
                }
            }
            8 => {
                self.ctx.count("ws-ff");
                self.put(b"\x0c")
            }
            9 => {
                self.ctx.count("ws-nul");
                self.put(b"\0")
            }
            _ => {
                self.ws_mix(b" \t\n\r\x0c\0");
                if self.cm {
                    self.comment();
                    self.ws_mix(b" \n");
                }
            }
        }
    }
    /// one token, preceded by the white-space the grammar needs (or more)
    fn tok(&mut self, t: &[u8]) {
        let need = self.open && is_regular(t[0]);
        self.ws(need);
        if self.first_tok.is_none() {
            self.first_tok = Some(self.out.len());
        }
        self.put(t);
        // a name (even the empty one) and anything ending in a regular character stay open
        self.open = t[0] == b'/' || is_regular(*t.last().unwrap());
    }

    // ---------------------------------------------------------------- scalars

    fn int_tok(&self, i: i64) -> Vec<u8> {
        let s = i.to_string();
        if !self.p([0, 80, 300], "int-fancy") {
            return s.into_bytes();
        }
        let (neg, digits) = match s.strip_prefix('-') {
            Some(d) => (true, d.to_string()),
            None => (false, s.clone()),
        };
        let k = self.d(3, "int-variant");
        let mut r = String::new();
        if neg {
            r.push('-')
        } else if k != 1 {
            self.ctx.count("int-plus");
            r.push('+')
        }
        // leading zeros, total digits <= 18, never on numbers of >= 17 digits
        if k >= 1 && digits.len() < 17 {
            self.ctx.count("int-leading-zeros");
            let z = 1 + self.d((18 - digits.len()).min(3) as u64, "int-zeros");
            r.push_str(&"0".repeat(z));
        }
        r.push_str(&digits);
        r.into_bytes()
    }

    /// plain decimal notation that `str::parse::<f32>` maps back to exactly `r`
    fn real_tok(&self, r: f32) -> Vec<u8> {
        assert!(r.is_finite(), "non-finite real can not be written");
        let s = format!("{}", r);
        debug_assert!(!s.contains('e') && !s.contains('E'));
        let (neg, body) = match s.strip_prefix('-') {
            Some(b) => (true, b),
            None => (false, s.as_str()),
        };
        let (ip, fp) = body.split_once('.').unwrap_or((body, ""));
        let (mut ip, mut fp) = (ip.to_string(), fp.to_string());
        let mut plus = false;
        if self.p([0, 150, 500], "real-fancy") {
            let k = self.d(8, "real-variant");
            if k & 1 != 0 {
                // trailing zeros
                fp.push_str(&"0".repeat(1 + self.d(3, "real-zeros")));
            }
            if k & 2 != 0 && ip == "0" && !fp.is_empty() {
                self.ctx.count("real-no-int-part");
                ip.clear(); // `.5`
            }
            plus = k & 4 != 0 && !neg;
            if fp.is_empty() {
                self.ctx.count("real-bare-point"); // `4.`
            }
        } else if fp.is_empty() {
            fp.push('0'); // an integral value always carries a decimal point
        }
        let mut t = String::new();
        if neg {
            t.push('-')
        } else if plus {
            self.ctx.count("real-plus");
            t.push('+')
        }
        t.push_str(&ip);
        t.push('.');
        t.push_str(&fp);
        debug_assert_eq!(t.parse::<f32>().unwrap().to_bits(), r.to_bits(), "{}", t);
        t.into_bytes()
    }

    fn name_tok(&self, n: &[u8]) -> Vec<u8> {
        // 0 = escape only what must be, 1 = sporadic escapes, 2 = escape every byte
        let style = if self.p([0, 150, 400], "name-fancy") { 1 + self.d(2, "name-style") } else { 0 };
        let mut t = vec![b'/'];
        if n.is_empty() {
            self.ctx.count("name-empty");
        }
        for &c in n {
            let must = !(33..=126).contains(&c) || is_delim(c) || c == b'#';
            let extra = !must && (style == 2 || (style == 1 && self.ctx.chance(SW, 1, 4, "name-esc")));
            if must || extra {
                if extra {
                    self.ctx.count("name-hash-optional");
                }
                let lower = style > 0 && self.ctx.chance(SW, 1, 2, "name-hex-lower");
                if lower {
                    self.ctx.count("name-hash-lower");
                }
                t.extend_from_slice(
                    (if lower { format!("#{:02x}", c) } else { format!("#{:02X}", c) }).as_bytes(),
                );
            } else {
                t.push(c);
            }
        }
        t
    }

    fn lit_tok(&self, s: &[u8]) -> Vec<u8> {
        let n = s.len();
        // very long strings are written plainly (one draw per byte would dominate the run, and the
        // "highly compressible" workload class needs them to stay compressible)
        let fancy = n < 10_000 && self.p([0, 250, 700], "str-fancy");
        // Which parentheses are properly matched, and how deep is each pair.
        let mut raw_pair = vec![false; n];
        if fancy {
            let mut stack: Vec<usize> = Vec::new();
            for i in 0..n {
                if s[i] == b'(' {
                    stack.push(i);
                } else if s[i] == b')' {
                    if let Some(j) = stack.pop() {
                        // any subset of a proper nesting is a proper nesting: decide per pair
                        if stack.len() < 40 && self.ctx.chance(SW, 1, 2, "str-raw-paren") {
                            self.ctx.count("str-balanced-raw-parens");
                            raw_pair[i] = true;
                            raw_pair[j] = true;
                        }
                    }
                }
            }
        }
        let mut t = vec![b'('];
        // the last byte written is a raw CR: a raw LF now would fuse with it into one EOL
        let mut last_cr = false;
        for i in 0..n {
            let c = s[i];
            let next_digit = i + 1 < n && s[i + 1].is_ascii_digit();
            let mut k = if fancy { self.d(10, "str-byte") } else { 0 };
            if k == 9 {
                // line continuation between two bytes denotes nothing
                self.ctx.count("str-line-continuation");
                t.push(b'\\');
                match self.d(3, "str-cont-eol") {
                    0 => t.push(b'\n'),
                    1 => t.extend_from_slice(b"\r\n"),
                    _ => {
                        t.push(b'\r');
                        last_cr = true;
                    }
                }
                if !matches!(t.last(), Some(b'\r')) {
                    last_cr = false;
                }
                k = self.d(9, "str-byte");
            }
            let named: Option<u8> = match c {
                b'\n' => Some(b'n'),
                b'\r' => Some(b'r'),
                b'\t' => Some(b't'),
                8 => Some(b'b'),
                12 => Some(b'f'),
                b'(' | b')' | b'\\' => Some(c),
                _ => None,
            };
            let start = t.len();
            match k {
                // both parentheses of a pair chosen to stay raw must stay raw
                _ if raw_pair[i] => t.push(c),
                6 | 7 => {
                    // octal, 1-3 digits; 3 when a digit follows
                    let min = if c >= 64 { 3 } else if c >= 8 { 2 } else { 1 };
                    let w = if next_digit { 3 } else { min + self.d((4 - min) as u64, "str-octal-w") };
                    self.ctx.count(if w < 3 { "str-octal-short" } else { "str-octal-3" });
                    t.extend_from_slice(format!("\\{:0w$o}", c, w = w).as_bytes());
                }
                8 if c == b'\n' => {
                    // a raw EOL of any form denotes one LF
                    let form = if self.raw_cr && self.f >= 2 { self.d(3, "str-raw-eol") } else { 0 };
                    match form {
                        0 if last_cr => t.extend_from_slice(b"\\n"),
                        0 => {
                            self.ctx.count("str-raw-lf");
                            t.push(b'\n')
                        }
                        1 => {
                            self.ctx.count("raw-cr-eol-in-string");
                            t.push(b'\r')
                        }
                        _ => {
                            self.ctx.count("raw-cr-eol-in-string");
                            t.extend_from_slice(b"\r\n")
                        }
                    }
                }
                _ => match (c, named) {
                    (_, Some(e)) => {
                        if k >= 4 || c != b'\t' && c != 8 && c != 12 {
                            // named escape (optional for TAB, BS, FF; needed for the others)
                            t.push(b'\\');
                            t.push(e);
                        } else {
                            t.push(c);
                        }
                    }
                    _ => t.push(c),
                },
            }
            last_cr = t.len() > start && t[t.len() - 1] == b'\r' && t[start] != b'\\';
        }
        t.push(b')');
        t
    }

    fn hex_tok(&self, s: &[u8]) -> Vec<u8> {
        let fancy = self.p([0, 250, 700], "hex-fancy");
        // 0 upper, 1 lower, 2 mixed per digit
        let case = if fancy { self.d(3, "hex-case") } else { 0 };
        let wsp = fancy && self.ctx.chance(SW, 1, 2, "hex-ws");
        let odd = fancy && s.last().is_some_and(|b| b & 15 == 0) && self.ctx.chance(SW, 1, 2, "hex-odd");
        let wset: &[u8] = if self.f >= 2 { b" \n\r\t\x0c\0" } else { b" \n\r\t" };
        let mut t = vec![b'<'];
        let ndig = s.len() * 2 - odd as usize;
        if odd {
            self.ctx.count("hex-odd-digits");
        }
        if case > 0 {
            self.ctx.count("hex-lower-or-mixed");
        }
        for k in 0..ndig {
            if wsp && self.ctx.chance(SW, 1, 6, "hex-ws-here") {
                self.ctx.count("hex-inner-ws");
                t.push(wset[self.ctx.draw(SW, wset.len() as u64, "hex-ws-ch") as usize]);
            }
            let nib = if k % 2 == 0 { s[k / 2] >> 4 } else { s[k / 2] & 15 };
            let lower = case == 1 || (case == 2 && self.ctx.chance(SW, 1, 2, "hex-digit-case"));
            t.push(if lower { b"0123456789abcdef" } else { b"0123456789ABCDEF" }[nib as usize]);
        }
        if wsp && self.ctx.chance(SW, 1, 6, "hex-ws-here") {
            t.push(b' ');
        }
        t.push(b'>');
        t
    }

    // ---------------------------------------------------------------- objects

    fn obj(&mut self, o: &MObj) {
        match o {
            MObj::Null => self.tok(b"null"),
            MObj::Bool(true) => self.tok(b"true"),
            MObj::Bool(false) => self.tok(b"false"),
            MObj::Int(i) => {
                let t = self.int_tok(*i);
                self.tok(&t)
            }
            MObj::Real(r) => {
                let t = self.real_tok(*r);
                self.tok(&t)
            }
            MObj::Name(n) => {
                let t = self.name_tok(n);
                self.tok(&t)
            }
            MObj::Str(s, false) => {
                let t = self.lit_tok(s);
                self.tok(&t)
            }
            MObj::Str(s, true) => {
                let t = self.hex_tok(s);
                self.tok(&t)
            }
            MObj::Array(a) => {
                self.tok(b"[");
                for x in a {
                    self.obj(x);
                }
                self.tok(b"]");
            }
            MObj::Dict(d) => self.dict(d, &[]),
            MObj::Ref(n, g) => {
                self.tok(n.to_string().as_bytes());
                self.tok(g.to_string().as_bytes());
                self.tok(b"R");
            }
            MObj::Stream(..) => panic!("a stream can only be a top-level indirect object"),
        }
    }

    /// dictionary; the byte spans of the values of the keys in `marks` are recorded as fields
    fn dict(&mut self, d: &MDict, marks: &[(&[u8], FieldKind)]) {
        self.tok(b"<<");
        for (k, v) in d {
            let t = self.name_tok(k);
            self.tok(&t);
            let mark = marks.iter().find(|(mk, _)| *mk == k.as_slice()).map(|m| m.1);
            if mark.is_some() {
                self.first_tok = None;
            }
            self.obj(v);
            if let Some(kind) = mark {
                self.fields.push((self.first_tok.unwrap(), self.out.len(), kind));
            }
        }
        self.tok(b">>");
    }

    /// white-space between two indirect objects / structural parts (never empty)
    fn gap(&mut self) {
        if self.p([0, 200, 500], "gap-fancy") {
            self.open = true;
            self.cm = true;
            self.ws(true);
            while self.p([0, 100, 250], "gap-more") {
                self.ws(false);
            }
        } else {
            self.put(b"\n");
        }
        self.open = false;
    }

    /// `N G obj`; returns the absolute position of the first digit
    fn begin_obj(&mut self, n: u32, g: u16) -> usize {
        let at = self.out.len();
        self.cm = false; // only white-space inside the object header
        self.put(n.to_string().as_bytes()); // xref offsets designate this digit
        self.open = true;
        self.tok(g.to_string().as_bytes());
        self.tok(b"obj");
        self.cm = true;
        self.fields.push((at, self.out.len(), FieldKind::ObjHeader));
        self.nl0();
        at
    }
    /// freedom 0 puts `obj`, the value and `endobj` on lines of their own
    fn nl0(&mut self) {
        if self.f == 0 {
            self.put(b"\n");
            self.open = false;
        }
    }

    /// a complete indirect non-stream object
    fn plain_obj(&mut self, id: (u32, u16), o: &MObj) -> usize {
        let at = self.begin_obj(id.0, id.1);
        self.obj(o);
        self.nl0();
        self.tok(b"endobj");
        at
    }

    /// a complete indirect stream object with exactly the given dictionary
    fn stream_obj(
        &mut self, id: (u32, u16), d: &MDict, body: &[u8], marks: &[(&[u8], FieldKind)], kind: FieldKind,
    ) -> usize {
        let at = self.begin_obj(id.0, id.1);
        self.dict(d, marks);
        self.tok(b"stream");
        // after the keyword: CRLF or LF, never a lone CR, nothing else
        if self.p([0, 300, 500], "stream-crlf") {
            self.put(b"\r\n")
        } else {
            self.put(b"\n")
        }
        let s = self.out.len();
        self.put(body);
        self.fields.push((s, s + body.len(), kind));
        match self.d(4, "endstream-eol") {
            0 => self.put(b"\n"),
            1 => self.put(b"\r\n"),
            2 => self.put(b"\r"),
            _ => self.ctx.count("endstream-no-eol"),
        }
        self.put(b"endstream");
        self.open = true;
        self.nl0();
        self.tok(b"endobj");
        at
    }

    // ---------------------------------------------------------------- filters

    /// PNG predictor `pred` (10..=15) with one-byte pixels; `data.len()` is a multiple of `cols`
    fn png_predict(&self, data: &[u8], cols: usize, pred: i64) -> Vec<u8> {
        let no_avg = AVOID.load(Ordering::Relaxed) & AVOID_PNG_AVERAGE != 0;
        let mut out = Vec::with_capacity(data.len() + data.len() / cols.max(1) + 1);
        let zero = vec![0u8; cols];
        let mut prev: &[u8] = &zero;
        for row in data.chunks(cols) {
            let mut ft = if pred == 15 { self.ctx.draw(SW, 5, "png-row-filter") as u8 } else { (pred - 10) as u8 };
            if ft == 3 && no_avg {
                ft = 2;
            }
            self.ctx.count(["png-row-none", "png-row-sub", "png-row-up", "png-row-average", "png-row-paeth"][ft as usize]);
            out.push(ft);
            for i in 0..row.len() {
                let a = if i > 0 { row[i - 1] } else { 0 } as i32; // left
                let b = prev[i] as i32; // above
                let c = if i > 0 { prev[i - 1] } else { 0 } as i32; // upper left
                let predicted = match ft {
                    0 => 0,
                    1 => a,
                    2 => b,
                    3 => (a + b) / 2,
                    _ => {
                        let p = a + b - c;
                        let (pa, pb, pc) = ((p - a).abs(), (p - b).abs(), (p - c).abs());
                        if pa <= pb && pa <= pc {
                            a
                        } else if pb <= pc {
                            b
                        } else {
                            c
                        }
                    }
                };
                out.push(row[i].wrapping_sub(predicted as u8));
            }
            prev = row;
        }
        out
    }

    /// zlib stream: flate2 at a drawn level, or our own stored-block encoder
    fn flate(&self, data: &[u8]) -> Vec<u8> {
        if !self.force_zlib && self.d(2, "flate-own") == 1 {
            self.ctx.count("flate-own-stored");
            let mut out = vec![0x78, 0x01];
            let mut rest = data;
            loop {
                // block sizes: small ones are the interesting ones, the format allows up to 65535
                let max = rest.len().min(65535);
                let n = match self.d(3, "stored-class") {
                    0 => max,
                    1 => (self.ctx.draw(SW, 40, "stored-n") as usize).min(max),
                    _ => (self.ctx.draw(SW, 65536, "stored-n") as usize).min(max),
                };
                let last = n == rest.len();
                out.push(last as u8);
                out.extend_from_slice(&(n as u16).to_le_bytes());
                out.extend_from_slice(&(!(n as u16)).to_le_bytes());
                out.extend_from_slice(&rest[..n]);
                rest = &rest[n..];
                if last {
                    break;
                }
            }
            let (mut a, mut b) = (1u32, 0u32);
            for &x in data {
                a = (a + x as u32) % 65521;
                b = (b + a) % 65521;
            }
            out.extend_from_slice(&((b << 16) | a).to_be_bytes());
            out
        } else {
            use std::io::Write;
            self.ctx.count("flate-zlib");
            let level = self.ctx.draw(SW, 10, "flate-level") as u32;
            let mut enc = flate2::write::ZlibEncoder::new(Vec::new(), flate2::Compression::new(level));
            enc.write_all(data).unwrap();
            enc.finish().unwrap()
        }
    }

    /// optional `Filter`/`DecodeParms` for a structural stream; `cols` = row width for a predictor
    /// (the data length must be a multiple of it). Returns the encoded body.
    fn encode_structural(&self, d: &mut MDict, data: Vec<u8>, cols: usize, what: [&'static str; 2]) -> Vec<u8> {
        if !self.force_zlib && !self.p([0, 500, 800], "struct-flate") {
            return data;
        }
        // Other filters a structural stream may legally carry: LZW (with or without predictor),
        // ASCII85 alone, ASCII85 around Flate (DecodeParms then has to be an array).
        if !self.force_zlib && self.f == 2 {
            match self.d(8, "struct-other-filter") {
                5 => return self.encode_lzw_structural(d, data, cols),
                6 => {
                    self.ctx.count("struct-ascii85");
                    d.push((b"Filter".to_vec(), MObj::Name(b"ASCII85Decode".to_vec())));
                    return ascii85_encode(&data);
                }
                7 => {
                    self.ctx.count("struct-ascii85-flate-chain");
                    let mut body = data;
                    let mut parms = MObj::Null;
                    if cols > 0 && self.d(2, "chain-predictor") == 1 {
                        self.ctx.count("struct-chain-predictor-in-parms-array");
                        body = self.png_predict(&body, cols, 12);
                        parms = MObj::Dict(vec![(b"Predictor".to_vec(), MObj::Int(12)), (b"Columns".to_vec(), MObj::Int(cols as i64))]);
                    }
                    d.push((
                        b"Filter".to_vec(),
                        MObj::Array(vec![MObj::Name(b"ASCII85Decode".to_vec()), MObj::Name(b"FlateDecode".to_vec())]),
                    ));
                    if parms != MObj::Null {
                        d.push((b"DecodeParms".to_vec(), MObj::Array(vec![MObj::Null, parms])));
                    }
                    return ascii85_encode(&self.flate(&body));
                }
                _ => {}
            }
        }
        self.ctx.count(what[0]);
        let mut body = data;
        if self.p([0, 400, 600], "struct-predictor") && cols > 0 {
            let mut pred = 10 + self.ctx.draw(SW, 6, "predictor") as i64;
            if pred == 13 && AVOID.load(Ordering::Relaxed) & AVOID_PNG_AVERAGE != 0 {
                pred = 12;
            }
            self.ctx.count(what[1]);
            self.ctx.count(
                ["predictor-10", "predictor-11", "predictor-12", "predictor-13", "predictor-14", "predictor-15"]
                    [(pred - 10) as usize],
            );
            body = self.png_predict(&body, cols, pred);
            let mut parms: MDict =
                vec![(b"Predictor".to_vec(), MObj::Int(pred)), (b"Columns".to_vec(), MObj::Int(cols as i64))];
            if self.ctx.chance(SW, 1, 3, "parms-explicit") {
                parms.push((b"Colors".to_vec(), MObj::Int(1)));
                parms.push((b"BitsPerComponent".to_vec(), MObj::Int(8)));
            }
            self.single_filter(d, b"FlateDecode", Some(parms));
        } else {
            self.single_filter(d, b"FlateDecode", None);
        }
        self.flate(&body)
    }

    /// The three legal spellings of one filter with its parameters: name + dictionary, array of one
    /// name + dictionary, array of one name + array of one dictionary.
    fn single_filter(&self, d: &mut MDict, name: &[u8], parms: Option<MDict>) {
        let spelling = if self.f == 0 { 0 } else { self.d(4, "filter-spelling").saturating_sub(1) };
        if spelling > 0 {
            self.ctx.count(if spelling == 1 { "filter-array-of-one" } else { "filter-and-parms-arrays-of-one" });
        }
        if let Some(parms) = parms {
            d.push((b"DecodeParms".to_vec(), if spelling == 2 { MObj::Array(vec![MObj::Dict(parms)]) } else { MObj::Dict(parms) }));
        }
        let n = MObj::Name(name.to_vec());
        d.push((b"Filter".to_vec(), if spelling == 0 { n } else { MObj::Array(vec![n]) }));
    }

    fn encode_lzw_structural(&self, d: &mut MDict, data: Vec<u8>, cols: usize) -> Vec<u8> {
        self.ctx.count("struct-lzw");
        let mut body = data;
        let mut parms: MDict = Vec::new();
        if cols > 0 && self.d(2, "lzw-predictor") == 1 {
            self.ctx.count("struct-lzw-predictor");
            body = self.png_predict(&body, cols, 12);
            parms.push((b"Predictor".to_vec(), MObj::Int(12)));
            parms.push((b"Columns".to_vec(), MObj::Int(cols as i64)));
        }
        let early = self.d(3, "lzw-early-change") != 2;
        if !early {
            self.ctx.count("struct-lzw-early-change-0");
            parms.push((b"EarlyChange".to_vec(), MObj::Int(0)));
        }
        self.single_filter(d, b"LZWDecode", if parms.is_empty() { None } else { Some(parms) });
        if self.d(3, "lzw-literal-only") == 1 {
            self.ctx.count("struct-lzw-literal-codes-only");
            lzw_encode_literals(&body)
        } else {
            lzw_encode(&body, early)
        }
    }

    /// the decoded content of an object stream: index block, padding, members
    fn objstm_content(&self, members: &[(u32, MObj)], lengths: &BTreeSet<u32>, duplicate: Option<(usize, usize)>) -> (Vec<u8>, usize, Vec<usize>) {
        let seps: [&[u8]; 6] = [b" ", b"\n", b"\r", b"  ", b"\r\n", b" \n "];
        let sep = |v: &mut Vec<u8>| v.extend_from_slice(seps[self.d(6, "objstm-sep")]);
        let (mut objs, mut index) = (Vec::new(), Vec::new());
        let mut offsets = Vec::new();
        for (k, (num, o)) in members.iter().enumerate() {
            // deliberately invalid (see `misdesignate`): member `k` is listed under the number of member `j`
            let listed = match duplicate {
                Some((kk, j)) if kk == k => members[j].0,
                _ => *num,
            };
            let mut e = self.sub();
            match o {
                // an integer that is some stream's Length: now and then zero-padded to seven digits (legal;
                // it leaves room for a same-size corruption of the value)
                MObj::Int(v) if *v >= 0 && lengths.contains(num) && self.f >= 1 && self.d(3, "length-zero-padded") == 2 => {
                    self.ctx.count("length-object-zero-padded");
                    e.tok(format!("{:07}", v).as_bytes());
                }
                _ => e.obj(o),
            }
            // the offset designates the first byte of the object itself
            let start = e.first_tok.unwrap();
            index.extend_from_slice(listed.to_string().as_bytes());
            sep(&mut index);
            index.extend_from_slice(objs.len().to_string().as_bytes());
            offsets.push(objs.len());
            sep(&mut index);
            objs.extend_from_slice(&e.out[start..]);
            sep(&mut objs); // at least one white-space byte after every member
        }
        if self.p([0, 200, 500], "objstm-first-pad") {
            self.ctx.count("objstm-first-padding");
            for _ in 0..1 + self.d(6, "objstm-pad-n") {
                sep(&mut index);
            }
        }
        let first = index.len();
        index.extend_from_slice(&objs);
        (index, first, offsets)
    }
}

fn int(v: u64) -> MObj {
    MObj::Int(v as i64)
}
fn bytes_needed(v: u64) -> usize {
    (1..=8).find(|n| v < 1u64 << (8 * n).min(63)).unwrap_or(8)
}

#[derive(Clone, Copy)]
enum Ent {
    Free,
    /// offset (relative to the header), generation
    Used(u64, u16),
    /// container, index
    Comp(u32, u32),
}

enum Item {
    Plain((u32, u16), MObj),
    Container(u32, Vec<(u32, MObj)>),
}

/// Partition the object numbers of a cross-reference section into subsections / `Index` ranges:
/// split at every gap, and arbitrarily inside contiguous runs.
fn split_runs(e: &Em, ents: &BTreeMap<u32, Ent>) -> Vec<(u32, u32)> {
    let mut runs: Vec<(u32, u32)> = Vec::new();
    for &n in ents.keys() {
        match runs.last_mut() {
            Some((s, c)) if *s + *c == n && !(*c >= 1 && e.p([0, 40, 120], "xref-split")) => *c += 1,
            _ => runs.push((n, 1)),
        }
    }
    runs
}

/// An existing file (e.g. one written by lopdf) that the revisions are appended to.
#[derive(Clone, Debug)]
pub struct Seed {
    pub bytes: Vec<u8>,
    /// the `startxref` value of the existing file
    pub prev_xref: u64,
    /// highest object number the existing file uses (structural objects included)
    pub max_num: u32,
    /// what the existing file defines (user objects only)
    pub objects: BTreeMap<(u32, u16), MObj>,
}

/// One complete indirect object (`n g obj … endobj`, a stream with a direct `Length`) as bytes, in
/// the writer's dialect at the given freedom. For scenarios that lay out a file themselves.
pub fn object_bytes(ctx: &Ctx, freedom: usize, id: (u32, u16), o: &MObj) -> Vec<u8> {
    let mut e = Em::new(ctx, freedom.min(2), false);
    match o {
        MObj::Stream(d, body) => {
            let mut d = d.clone();
            dict_set(&mut d, b"Length", int(body.len() as u64));
            e.stream_obj(id, &d, body, &[], FieldKind::StreamBody);
        }
        _ => {
            e.plain_obj(id, o);
        }
    }
    e.out
}
/// A dictionary as bytes (for trailers of such files).
pub fn dict_bytes(ctx: &Ctx, freedom: usize, d: &MDict) -> Vec<u8> {
    let mut e = Em::new(ctx, freedom.min(2), false);
    e.dict(d, &[]);
    e.out
}

pub fn write_history(ctx: &Ctx, revisions: &[Revision], opts: &WriterOpts) -> Written {
    write_history_on(ctx, None, revisions, opts)
}

/// Like `write_history`; with a seed every revision is an update appended to the seed's bytes
/// (`expect[i]` and `layout.revision_ends[i]` then describe the file after update `i`).
pub fn write_history_on(ctx: &Ctx, seed: Option<&Seed>, revisions: &[Revision], opts: &WriterOpts) -> Written {
    use FieldKind::*;
    let avoid = AVOID.load(Ordering::Relaxed);
    let mut e = Em::new(ctx, opts.freedom.min(2) as usize, opts.raw_cr_eol);
    e.force_zlib = opts.force_structural_zlib;
    let mut layout = Layout::default();

    if let Some(sd) = seed {
        e.out = sd.bytes.clone();
        e.open = false;
    }
    // ---- junk, header, binary comment, further comment lines
    if seed.is_none() && opts.leading_junk {
        ctx.count("leading-junk");
        for _ in 0..1 + ctx.draw(SW, 400, "junk-len") {
            let c = ctx.draw(SW, 256, "junk") as u8;
            e.out.push(if c == b'%' { b'$' } else { c }); // no '%', hence no "%PDF-"
        }
    }
    let base = if seed.is_some() { 0 } else { e.out.len() };
    if seed.is_none() {
        e.put(b"%PDF-");
        e.put(opts.version.as_bytes());
        e.fields.push((base, e.out.len(), Header));
        e.eol();
        if !opts.binary_mark.is_empty() {
            e.put(b"%");
            e.put(&opts.binary_mark);
            e.eol();
        }
        for _ in 0..3 {
            if e.p([0, 100, 300], "header-comment") {
                e.comment();
            }
        }
    }

    let max_user = revisions.iter().flat_map(|r| r.objects.keys()).map(|k| k.0).max().unwrap_or(0).max(seed.map_or(0, |sd| sd.max_num));
    let mut next_id = max_user + 1; // structural numbers and Length integers
    let mut exp: BTreeMap<(u32, u16), MObj> = seed.map(|sd| sd.objects.clone()).unwrap_or_default();
    let mut structural: Vec<u32> = Vec::new();
    let mut ever_compressed: BTreeSet<u32> = BTreeSet::new();
    let mut defined: BTreeSet<u32> = seed.map(|sd| sd.objects.keys().map(|k| k.0).collect()).unwrap_or_default();
    let mut max_num: u32 = seed.map_or(0, |sd| sd.max_num);
    let mut prev_xref: Option<u64> = seed.map(|sd| sd.prev_xref);
    let (mut expect, mut structural_ids) = (Vec::new(), Vec::new());
    let mut emitted_containers: Vec<u32> = Vec::new();

    for (ri, rev) in revisions.iter().enumerate() {
        let style = opts.styles.get(ri).or(opts.styles.last()).copied().unwrap_or(XrefStyle::Table);
        let can_compress = style == XrefStyle::Stream && opts.object_streams;
        // with a seed every revision is an update
        let ri = if seed.is_some() { ri + 1 } else { ri };
        if ri > 0 {
            e.ensure_eol(); // the previous `%%EOF` may have ended without one
        }

        // ---- plan: which objects are plain, which go into object streams, which Lengths are indirect
        let mut plain: Vec<((u32, u16), MObj)> = Vec::new();
        let mut members: Vec<(u32, MObj)> = Vec::new();
        let mut len_pairs: Vec<(u32, u32)> = Vec::new(); // (stream number, Length object number)
        // Length objects handed out in this revision, by value: streams of equal length may share one
        let mut length_objs: BTreeMap<usize, u32> = BTreeMap::new();
        // those of them written as plain objects (a container's own Length cannot live in a container)
        let mut plain_length_objs: BTreeMap<usize, u32> = BTreeMap::new();
        let mut compressed_length_objs: BTreeSet<u32> = BTreeSet::new();
        for (id, o) in &rev.objects {
            let mut o = o.clone();
            max_num = max_num.max(id.0);
            if let MObj::Stream(d, body) = &mut o {
                dict_set(d, b"Length", int(body.len() as u64));
                let indirect = e.p([0, 200, 500], "length-indirect");
                let in_objstm = indirect && can_compress && e.p([0, 300, 400], "length-in-objstm");
                if indirect && avoid & AVOID_INDIRECT_LENGTH == 0 && length_objs.contains_key(&body.len()) && e.d(2, "length-shared") == 1 {
                    // several streams may refer to one integer object for their (equal) lengths
                    ctx.count("length-object-shared");
                    dict_set(d, b"Length", MObj::Ref(length_objs[&body.len()], 0));
                } else if indirect && avoid & AVOID_INDIRECT_LENGTH == 0 {
                    let n = next_id;
                    length_objs.insert(body.len(), n);
                    next_id += 1;
                    max_num = max_num.max(n);
                    dict_set(d, b"Length", MObj::Ref(n, 0));
                    let lo = int(body.len() as u64);
                    exp.insert((n, 0), lo.clone());
                    if in_objstm {
                        ctx.count("length-indirect-in-objstm");
                        compressed_length_objs.insert(n);
                        members.push((n, lo));
                    } else {
                        len_pairs.push((id.0, n));
                        plain_length_objs.insert(body.len(), n);
                        plain.push(((n, 0), lo));
                    }
                }
                plain.push((*id, o.clone()));
            } else {
                let dup = ever_compressed.contains(&id.0);
                // (the "inflates to hundreds of times the file size" class keeps everything it can in object streams)
                let want = can_compress && id.1 == 0 && (e.p([0, 500, 650], "compress") || opts.force_structural_zlib);
                if want && !(dup && avoid & AVOID_DUP_IN_OBJSTM != 0) {
                    members.push((id.0, o.clone()));
                } else {
                    plain.push((*id, o.clone()));
                }
            }
            exp.insert(*id, o);
        }
        for (n, _) in &members {
            if defined.contains(n) {
                ctx.count("updated-object-in-new-objstm");
            }
            if !ever_compressed.insert(*n) {
                ctx.count("same-number-in-objstm-of-two-revisions");
            }
        }
        defined.extend(rev.objects.keys().map(|k| k.0));

        // ---- distribute the members over containers, then order the body
        let mut items: Vec<Item> = plain.into_iter().map(|(id, o)| Item::Plain(id, o)).collect();
        let mut containers: Vec<u32> = Vec::new();
        if !members.is_empty() {
            if e.p([0, 500, 800], "members-shuffle") {
                e.shuffle(&mut members, "members-perm");
            }
            let k = 1 + e.d(members.len().min(3) as u64, "containers-n");
            let mut groups: Vec<Vec<(u32, MObj)>> = vec![Vec::new(); k];
            for m in members {
                groups[e.d(k as u64, "container-of")].push(m);
            }
            for g in groups.into_iter().filter(|g| !g.is_empty()) {
                let cid = next_id;
                next_id += 1;
                max_num = max_num.max(cid);
                containers.push(cid);
                structural.push(cid);
                items.push(Item::Container(cid, g));
            }
            ctx.count("objstm-revision");
            if containers.len() > 1 {
                ctx.count("objstm-several-containers");
            }
        }
        if e.p([0, 600, 900], "body-shuffle") {
            e.shuffle(&mut items, "body-perm");
        }
        // probes: position of an indirect Length relative to its stream
        let pos_of = |n: u32| items.iter().position(|it| matches!(it, Item::Plain(id, _) if id.0 == n));
        for (s, l) in &len_pairs {
            ctx.count(if pos_of(*l) < pos_of(*s) { "length-indirect-backward" } else { "length-indirect-forward" });
        }

        // ---- body
        let mut ents: BTreeMap<u32, Ent> = BTreeMap::new();
        // Length integers of containers, decided while the body is written
        let mut late: Vec<(u32, MObj)> = Vec::new();
        for (id, _) in &rev.objects {
            layout.compressed.remove(&id.0);
        }
        for it in &items {
            e.gap();
            match it {
                Item::Plain(id, MObj::Stream(d, body)) => {
                    let at = e.stream_obj(*id, d, body, &[(b"Length", LengthValue)], StreamBody);
                    ents.insert(id.0, Ent::Used((at - base) as u64, id.1));
                }
                Item::Plain(id, o) => {
                    // deliberately invalid (see `misdesignate`): the header carries another object number
                    // than the cross-reference entry that leads to it
                    let header_id = if opts.misdesignate && e.d(6, "misnumber") == 5 {
                        ctx.count("misnumbered-object-header");
                        (id.0 + 1 + e.d(3000, "misnumber-by") as u32, id.1)
                    } else {
                        *id
                    };
                    let at = e.plain_obj(header_id, o);
                    ents.insert(id.0, Ent::Used((at - base) as u64, id.1));
                }
                Item::Container(cid, group) => {
                    let (mut content, first, member_offsets) = {
                        // deliberately invalid: the index of a container lists one number twice
                        let dup = if opts.misdesignate && group.len() >= 2 && e.d(3, "objstm-duplicate-number") == 2 {
                            ctx.count("objstm-index-duplicate-number");
                            let k = e.d(group.len() as u64, "objstm-dup-k");
                            let j = (k + 1 + e.d(group.len() as u64 - 1, "objstm-dup-j")) % group.len();
                            Some((k, j))
                        } else {
                            None
                        };
                        e.objstm_content(group, &compressed_length_objs, dup)
                    };
                    let mut d: MDict = vec![
                        (b"Type".to_vec(), MObj::Name(b"ObjStm".to_vec())),
                        (b"N".to_vec(), int(group.len() as u64)),
                        (b"First".to_vec(), int(first as u64)),
                    ];
                    // a predictor needs whole rows: pad with trailing white-space
                    let cols = 1 + e.d(8, "objstm-columns");
                    while content.len() % cols != 0 {
                        content.push(b' ');
                    }
                    let mut body = e.encode_structural(&mut d, content, cols, ["objstm-flate", "objstm-predictor"]);
                    // A container's Length may be an indirect integer too, and one it shares with
                    // other streams of the revision (an unfiltered container is padded with white-space
                    // up to the shared value). The integer object is a plain object written after the body.
                    let mut length = int(body.len() as u64);
                    if avoid & AVOID_INDIRECT_LENGTH == 0 && e.p([0, 250, 600], "objstm-length-indirect") {
                        ctx.count("objstm-length-indirect");
                        let raw = dict_get(&d, b"Filter").is_none();
                        let candidate = if raw {
                            plain_length_objs.range(body.len()..).next().filter(|(l, _)| **l - body.len() <= 2048).map(|(l, n)| (*l, *n))
                        } else {
                            plain_length_objs.get(&body.len()).map(|n| (body.len(), *n))
                        };
                        match candidate {
                            Some((l, n)) if e.d(3, "objstm-length-shared") != 0 => {
                                ctx.count("objstm-length-object-shared");
                                layout.container_length_shared += 1;
                                body.resize(l, b' ');
                                layout.container_length_objs.insert(n);
                                length = MObj::Ref(n, 0);
                            }
                            _ => {
                                // an unfiltered container that opens a new Length object is now and then padded
                                // generously, so that later containers of the revision can share the object
                                if raw && e.d(4, "objstm-length-rounded-up") != 0 {
                                    ctx.count("objstm-length-rounded-up");
                                    let l = (body.len() / 512 + 1) * 512;
                                    body.resize(l, b' ');
                                }
                                let n = next_id;
                                next_id += 1;
                                max_num = max_num.max(n);
                                plain_length_objs.insert(body.len(), n);
                                exp.insert((n, 0), int(body.len() as u64));
                                late.push((n, int(body.len() as u64)));
                                layout.container_length_objs.insert(n);
                                length = MObj::Ref(n, 0);
                            }
                        }
                    }
                    d.push((b"Length".to_vec(), length));
                    if e.p([0, 300, 700], "dict-shuffle") {
                        e.shuffle(&mut d, "dict-perm");
                    }
                    let marks: [(&[u8], FieldKind); 3] =
                        [(b"N", ObjStmN), (b"First", ObjStmFirst), (b"Length", LengthValue)];
                    // deliberately invalid (see `misdesignate`): the header of a container carries the number
                    // of another container, so that two cross-reference entries lead to object streams that
                    // claim the same object number
                    let header_cid = if opts.misdesignate && !emitted_containers.is_empty() && e.d(4, "container-misnumber") == 3 {
                        ctx.count("misnumbered-container-header");
                        emitted_containers[e.d(emitted_containers.len() as u64, "container-misnumber-as")]
                    } else {
                        *cid
                    };
                    emitted_containers.push(*cid);
                    let at = e.stream_obj((header_cid, 0), &d, &body, &marks, ObjStmBody);
                    ents.insert(*cid, Ent::Used((at - base) as u64, 0));
                    // an unfiltered container: the digits of members that are some stream's Length are
                    // stored in the clear (a fault there reaches the loader's second pass over the streams)
                    if dict_get(&d, b"Filter").is_none() {
                        if let Some(&(bs, _, _)) = e.fields.iter().rev().find(|f| f.2 == ObjStmBody) {
                            for (k, (n, o)) in group.iter().enumerate() {
                                if let (true, MObj::Int(v)) = (compressed_length_objs.contains(n), o) {
                                    let a = bs + first + member_offsets[k];
                                    // (weighted: one such integer among hundreds of structural fields)
                                    let end = (a..e.out.len()).find(|&i| !e.out[i].is_ascii_digit() && e.out[i] != b'+').unwrap_or(a + 1);
                                    for _ in 0..8 {
                                        e.fields.push((a, end, LengthObject));
                                    }
                                }
                            }
                        }
                    }
                    for (idx, (n, _)) in group.iter().enumerate() {
                        if opts.misdesignate && e.d(3, "misdesignate") == 1 {
                            ctx.count("misdesignated-compressed-object");
                            match e.d(3, "misdesignate-how") {
                                // no new entry: an older section (if any) keeps designating the old copy
                                0 => {}
                                // the container of the older copy (a stale designation), if there is one
                                1 if layout.compressed.contains_key(n) => {
                                    let (oc, oi) = layout.compressed[n];
                                    ents.insert(*n, Ent::Comp(oc, oi));
                                }
                                // a container that does not exist
                                _ => {
                                    ents.insert(*n, Ent::Comp(*cid + 1000, idx as u32));
                                }
                            }
                            continue;
                        }
                        ents.insert(*n, Ent::Comp(*cid, idx as u32));
                        layout.compressed.insert(*n, (*cid, idx as u32));
                    }
                }
            }
        }
        for (n, lo) in &late {
            e.gap();
            let at = e.plain_obj((*n, 0), lo);
            ents.insert(*n, Ent::Used((at - base) as u64, 0));
        }
        // object 0: always in revision 0 of a table; optional elsewhere (and needed if nothing else is there)
        let zero = match (ri, style) {
            (0, XrefStyle::Table) => true,
            (0, XrefStyle::Stream) => !e.p([0, 150, 300], "xref-stream-without-zero"),
            _ => (ents.is_empty() && style == XrefStyle::Table) || e.p([0, 300, 500], "update-with-zero"),
        };
        if zero {
            ents.insert(0, Ent::Free);
        }

        // ---- cross-reference section
        e.gap();
        let mut bookkeeping: MDict = Vec::new();
        let xref_at;
        match style {
            XrefStyle::Table => {
                e.ensure_eol();
                xref_at = e.out.len();
                e.put(b"xref");
                e.eol();
                let runs = split_runs(&e, &ents);
                if runs.len() > 1 {
                    ctx.count("xref-table-multi-subsection");
                }
                for (start, cnt) in runs {
                    e.put(format!("{} {}", start, cnt).as_bytes());
                    if e.p([0, 150, 300], "subsection-space") {
                        e.put(b" ");
                    }
                    e.eol();
                    for n in start..start + cnt {
                        let at = e.out.len();
                        match ents[&n] {
                            Ent::Free => e.put(b"0000000000 65535 f"),
                            Ent::Used(off, g) => {
                                e.put(format!("{:010} {:05} n", off, g).as_bytes());
                                e.fields.push((at, at + 10, XrefOffsetEntry));
                            }
                            Ent::Comp(..) => unreachable!("compressed object in a table revision"),
                        }
                        match e.d(3, "xref-entry-end") {
                            0 => {
                                ctx.count("xref-entry-end-sp-lf");
                                e.put(b" \n")
                            }
                            1 => {
                                ctx.count("xref-entry-end-cr-lf");
                                e.put(b"\r\n")
                            }
                            _ => {
                                ctx.count("xref-entry-end-sp-cr");
                                e.put(b" \r")
                            }
                        }
                        debug_assert_eq!(e.out.len() - at, 20);
                    }
                }
                for _ in 0..2 {
                    if e.p([0, 80, 250], "comment-before-trailer") {
                        ctx.count("comment-before-trailer");
                        e.comment();
                    }
                }
                bookkeeping.push((b"Size".to_vec(), int(max_num as u64 + 1)));
                if let Some(p) = prev_xref {
                    bookkeeping.push((b"Prev".to_vec(), int(p)));
                }
                let mut d = bookkeeping.clone();
                d.extend(rev.trailer.iter().cloned());
                if e.p([0, 300, 700], "dict-shuffle") {
                    e.shuffle(&mut d, "dict-perm");
                }
                let at = e.out.len();
                e.put(b"trailer");
                e.fields.push((at, at + 7, TrailerKeyword));
                e.open = true;
                if e.f == 0 {
                    e.put(b"\n");
                }
                e.dict(&d, &[(b"Size", SizeValue), (b"Prev", PrevValue)]);
                layout.xref_stream_ids.push(None);
            }
            XrefStyle::Stream => {
                let xid = next_id;
                next_id += 1;
                max_num = max_num.max(xid);
                structural.push(xid);
                xref_at = e.out.len();
                ents.insert(xid, Ent::Used((xref_at - base) as u64, 0));
                let size = max_num as u64 + 1;
                let runs = split_runs(&e, &ents);
                // rows (type, field 2, field 3) in Index order
                let rows: Vec<(u64, u64, u64)> = runs
                    .iter()
                    .flat_map(|&(s, c)| s..s + c)
                    .map(|n| match ents[&n] {
                        Ent::Free => (0, 0, 65535),
                        Ent::Used(off, g) => (1, off, g as u64),
                        Ent::Comp(c, i) => (2, c as u64, i as u64),
                    })
                    .collect();
                let m1 = bytes_needed(rows.iter().map(|r| r.1).max().unwrap_or(0));
                let max3 = rows.iter().map(|r| r.2).max().unwrap_or(0);
                let m2 = if max3 == 0 { 0 } else { bytes_needed(max3) };
                // ISO 32000-1 7.5.8.2: a type field of width 0 means "type 1" for every entry; fields may be
                // wider than needed (leading zero bytes), up to 8 bytes here
                let all_type1 = rows.iter().all(|r| r.0 == 1);
                let w0 = if all_type1 && e.d(3, "w0-zero") == 2 { 0 } else { 1 + e.d(2, "w0") };
                let w1 = if e.d(6, "w1-wide") == 5 { 5 + e.d(4, "w1-wide-n") } else { m1 + e.d((4usize.saturating_sub(m1) + 1) as u64, "w1") };
                let w2 = if e.d(8, "w2-wide") == 7 { 3 + e.d(2, "w2-wide-n") } else { m2 + e.d((2 - m2 + 1) as u64, "w2") };
                ctx.count(["w0=0", "w0=1", "w0=2"][w0]);
                ctx.count(["w1=1", "w1=2", "w1=3", "w1=4", "w1=5..8"][w1.min(5) - 1]);
                ctx.count(["w2=0", "w2=1", "w2=2", "w2=3..4"][w2.min(3)]);
                let mut data = Vec::new();
                for r in &rows {
                    for (v, w) in [(r.0, w0), (r.1, w1), (r.2, w2)] {
                        data.extend_from_slice(&v.to_be_bytes()[8 - w..]);
                    }
                }
                let mut d: MDict = vec![
                    (b"Type".to_vec(), MObj::Name(b"XRef".to_vec())),
                    (b"Size".to_vec(), int(size)),
                    (b"W".to_vec(), MObj::Array(vec![int(w0 as u64), int(w1 as u64), int(w2 as u64)])),
                ];
                if runs.len() > 1 {
                    ctx.count("xref-stream-multi-index");
                }
                if runs != [(0, size as u32)] || e.p([0, 150, 300], "index-explicit") {
                    let flat = runs.iter().flat_map(|&(s, c)| [int(s as u64), int(c as u64)]).collect();
                    d.push((b"Index".to_vec(), MObj::Array(flat)));
                } else {
                    ctx.count("xref-stream-no-index");
                }
                if let Some(p) = prev_xref {
                    d.push((b"Prev".to_vec(), int(p)));
                }
                d.extend(rev.trailer.iter().cloned());
                let body = e.encode_structural(&mut d, data, w0 + w1 + w2, ["xref-stream-flate", "xref-stream-predictor"]);
                d.push((b"Length".to_vec(), int(body.len() as u64)));
                if e.p([0, 300, 700], "dict-shuffle") {
                    e.shuffle(&mut d, "dict-perm");
                }
                let marks: [(&[u8], FieldKind); 5] = [
                    (b"Size", SizeValue),
                    (b"Prev", PrevValue),
                    (b"W", WArray),
                    (b"Index", IndexArray),
                    (b"Length", LengthValue),
                ];
                let at = e.stream_obj((xid, 0), &d, &body, &marks, XrefStreamBody);
                debug_assert_eq!(at, xref_at);
                layout.xref_stream_ids.push(Some(xid));
            }
        }

        // ---- startxref EOL offset EOL %%EOF, exactly (the keyword stays within 25 bytes of `%%EOF`)
        e.gap();
        e.ensure_eol();
        e.put(b"startxref");
        e.eol();
        let at = e.out.len();
        e.put(((xref_at - base) as u64).to_string().as_bytes());
        e.fields.push((at, e.out.len(), StartXrefValue));
        e.eol();
        let at = e.out.len();
        e.put(b"%%EOF");
        e.fields.push((at, at + 5, Eof));
        match e.d(4, "after-eof") {
            0 => e.put(b"\n"),
            1 => ctx.count("eof-without-eol"),
            2 => e.put(b"\r\n"),
            _ => e.ws_mix(b" \t\n\r"),
        }
        prev_xref = Some((xref_at - base) as u64);

        layout.revision_ends.push(e.out.len());
        layout.objstm_containers.push(containers);
        structural_ids.push(structural.clone());
        expect.push(MDoc {
            version: opts.version.clone(),
            binary_mark: opts.binary_mark.clone(),
            objects: exp.clone(),
            trailer: rev.trailer.clone(),
            max_id: max_num,
            xref_stream: style == XrefStyle::Stream,
        });
    }
    layout.fields = std::mem::take(&mut e.fields);
    Written { bytes: e.out, layout, expect, structural_ids }
}

/// Convenience: draw `WriterOpts` from stream W. All revisions use the same cross-reference
/// style (what the standard asks of incremental updates); callers may mix styles by hand.
pub fn draw_opts(ctx: &Ctx, n_revisions: usize, version: &str, binary_mark: &[u8]) -> WriterOpts {
    let style = if ctx.chance(SW, 1, 2, "opt-xref-stream") { XrefStyle::Stream } else { XrefStyle::Table };
    WriterOpts {
        version: version.to_string(),
        binary_mark: binary_mark.to_vec(),
        styles: vec![style; n_revisions.max(1)],
        freedom: ctx.draw(SW, 3, "opt-freedom") as u8,
        object_streams: ctx.chance(SW, 2, 3, "opt-object-streams"),
        leading_junk: ctx.chance(SW, 1, 8, "opt-leading-junk"),
        raw_cr_eol: ctx.chance(SW, 1, 2, "opt-raw-cr-eol"),
        misdesignate: false,
        force_structural_zlib: false,
    }
}


// ---------------------------------------------------------------- own encoders (not lopdf's twins)

fn ascii85_encode(data: &[u8]) -> Vec<u8> {
    let mut out = Vec::new();
    for (k, ch) in data.chunks(4).enumerate() {
        let mut b = [0u8; 4];
        b[..ch.len()].copy_from_slice(ch);
        let mut v = u32::from_be_bytes(b);
        if ch.len() == 4 && v == 0 {
            out.push(b'z');
        } else {
            let mut dgt = [0u8; 5];
            for i in (0..5).rev() {
                dgt[i] = (v % 85) as u8 + b'!';
                v /= 85;
            }
            out.extend_from_slice(&dgt[..ch.len() + 1]);
        }
        if k % 15 == 14 {
            out.push(b'\n'); // white-space is allowed anywhere in the encoded data
        }
    }
    out.extend_from_slice(b"~>");
    out
}

struct BitWriter {
    out: Vec<u8>,
    acc: u32,
    n: u32,
}
impl BitWriter {
    fn put(&mut self, code: u16, width: u32) {
        self.acc = (self.acc << width) | code as u32;
        self.n += width;
        while self.n >= 8 {
            self.out.push((self.acc >> (self.n - 8)) as u8);
            self.n -= 8;
            self.acc &= (1 << self.n) - 1;
        }
    }
    fn finish(mut self) -> Vec<u8> {
        if self.n > 0 {
            self.out.push((self.acc << (8 - self.n)) as u8);
        }
        self.out
    }
}

/// A legal LZW stream that never uses a table entry: literals with a clear code often enough
/// that the code width stays at 9 bits.
fn lzw_encode_literals(data: &[u8]) -> Vec<u8> {
    let mut w = BitWriter { out: Vec::new(), acc: 0, n: 0 };
    w.put(256, 9);
    for (i, &b) in data.iter().enumerate() {
        if i > 0 && i % 200 == 0 {
            w.put(256, 9);
        }
        w.put(b as u16, 9);
    }
    w.put(257, 9);
    w.finish()
}

/// LZW as used by PDF's LZWDecode (MSB first, 9..12 bit codes, clear 256, end 257); `early`:
/// the code width grows one code early (EarlyChange 1, the default).
fn lzw_encode(data: &[u8], early: bool) -> Vec<u8> {
    use std::collections::BTreeMap;
    let mut w = BitWriter { out: Vec::new(), acc: 0, n: 0 };
    let mut table: BTreeMap<(u16, u8), u16> = BTreeMap::new();
    let mut next: u16 = 258;
    let mut width: u32 = 9;
    w.put(256, width);
    let mut cur: Option<u16> = None;
    for &b in data {
        match cur {
            None => cur = Some(b as u16),
            Some(p) => {
                if let Some(&c) = table.get(&(p, b)) {
                    cur = Some(c);
                } else {
                    w.put(p, width);
                    table.insert((p, b), next);
                    next += 1;
                    // the decoder's table is one entry behind the encoder's
                    if next as u32 - 1 + early as u32 >= (1u32 << width) && width < 12 {
                        width += 1;
                    }
                    if next >= 4093 {
                        w.put(256, width);
                        table.clear();
                        next = 258;
                        width = 9;
                    }
                    cur = Some(b as u16);
                }
            }
        }
    }
    if let Some(p) = cur {
        w.put(p, width);
        // the decoder adds one more entry after this code: account for a width change before the end code
        next += 1;
        if next as u32 - 1 + early as u32 >= (1u32 << width) && width < 12 {
            width += 1;
        }
    }
    w.put(257, width);
    w.finish()
}
