//! Abstract document model, workload generator, reference producer and strict
//! consumer. Nothing in this crate depends on lopdf.

pub mod gen;
pub mod model;
pub mod strict;
pub mod refwriter;
pub mod pagegen;

pub use model::*;
